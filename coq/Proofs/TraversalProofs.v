(* The builder's work-list traversal examines exactly what the output needs: every node reachable from the output
   through declared marks (and the implicit link of un-marked nodes to the input node) is popped, i.e. validated
   and translated. Needed by C15 (nothing declared is dropped) and C16 (a defect anywhere reachable is seen). *)
From MLPE Require Import Pure.Builder.

Definition mark_visits (mk : mark) : list nat :=
  match mk with
  | MIn m => [m]
  | MSw d cases => d :: map snd cases
  | MOneOf cs => cs
  | MRec _ d _ => [d]
  end.

Definition params_of (ds : decls) (i : nat) : list (pname * mark) :=
  match nth_opt ds i with Some nd => ns_params nd | None => [] end.

(* the nodes the traversal pushes while translating node i *)
Definition deps_v (ds : decls) (inp i : nat) : list nat :=
  match params_of ds i with
  | [] => if Nat.eqb inp i then [] else [inp]
  | ps => flat_map (fun pm => mark_visits (snd pm)) ps
  end.

Definition visits (l : list nat) (sv : list nat * list nat) : list nat * list nat := fold_left (fun s m => visit m s) l sv.

Lemma visits_app a b sv : visits (a ++ b) sv = visits b (visits a sv).
Proof. unfold visits. apply fold_left_app. Qed.

(* ---- what visit_node does to the work list ------------------------------------------------------------ *)
Lemma apply_mark_sv inp cur idx p mk b :
  bs_sv (apply_mark inp cur idx p mk b) = visits (mark_visits mk) (bs_sv b)
  /\ bs_pop (apply_mark inp cur idx p mk b) = bs_pop b.
Proof.
  destruct mk as [m | d cases | cs | s d mx]; simpl.
  - split; reflexivity.
  - (* switch *)
    set (step := fun (acc : graph * list nat * (list nat * list nat)) (lc : nat * nat) =>
                   let '(g, mp, sv) := acc in
                   (add_edge (KN (snd lc)) (KSw cur idx) (set_case (fst lc)) g, map_add (snd lc) mp, visit (snd lc) sv)).
    assert (H : forall cases g mp sv, snd (fold_left step cases (g, mp, sv)) = visits (map snd cases) sv).
    { induction cases0 as [|[l c] r IH]; intros g mp sv; simpl; [reflexivity|]. rewrite IH. reflexivity. }
    match goal with |- context [fold_left ?f cases ?a] => change f with step; destruct (fold_left step cases a) as [[g3 mp3] sv3] eqn:E end.
    simpl. split; [|reflexivity].
    match type of E with fold_left step cases (?g, ?mp, ?sv) = _ => specialize (H cases g mp sv) end.
    rewrite E in H. simpl in H. exact H.
  - (* one-of *)
    set (step := fun (acc : graph * list nat * (list nat * list nat)) (c : nat) =>
                   let '(g, mp, sv) := acc in
                   let g' := add_node (KN c) (fun a => {| na_switch := na_switch a; na_head := na_head a; na_child := true;
                                                          na_cands := na_cands a; na_start := na_start a; na_maxit := na_maxit a |}) g in
                   (add_edge (KN c) (KOo cur idx) (fun a => a) g', map_add c mp, visit c sv)).
    assert (H : forall cs g mp sv, snd (fold_left step cs (g, mp, sv)) = visits cs sv).
    { induction cs0 as [|c r IH]; intros g mp sv; simpl; [reflexivity|]. rewrite IH. reflexivity. }
    match goal with |- context [fold_left ?f cs ?a] => change f with step; destruct (fold_left step cs a) as [[g3 mp3] sv3] eqn:E end.
    simpl. split; [|reflexivity].
    match type of E with fold_left step cs (?g, ?mp, ?sv) = _ => specialize (H cs g mp sv) end.
    rewrite E in H. simpl in H. exact H.
  - split; reflexivity.
Qed.

Lemma apply_marks_sv inp cur ps : forall idx b,
  bs_sv (apply_marks inp cur idx ps b) = visits (flat_map (fun pm => mark_visits (snd pm)) ps) (bs_sv b)
  /\ bs_pop (apply_marks inp cur idx ps b) = bs_pop b.
Proof.
  induction ps as [|[p mk] r IH]; intros idx b; simpl; [split; reflexivity|].
  destruct (IH (S idx) (apply_mark inp cur idx p mk b)) as [H1 H2].
  destruct (apply_mark_sv inp cur idx p mk b) as [A1 A2].
  rewrite H1, H2, A1, A2, visits_app. split; reflexivity.
Qed.

Lemma visit_node_sv ds inp cur b :
  bs_sv (visit_node ds inp cur b) = visits (deps_v ds inp cur) (bs_sv b)
  /\ bs_pop (visit_node ds inp cur b) = bs_pop b.
Proof.
  unfold visit_node, deps_v, params_of. destruct (nth_opt ds cur) as [nd|]; simpl.
  - destruct (ns_params nd) as [|pm r] eqn:Ep.
    + destruct (Nat.eqb inp cur); simpl; split; reflexivity.
    + destruct (apply_marks_sv inp cur (pm :: r) 0
                  {| bs_g := bs_g b; bs_map := map_add cur (bs_map b); bs_recs := bs_recs b; bs_synth := bs_synth b;
                     bs_sv := bs_sv b; bs_pop := bs_pop b |}) as [H1 H2].
      rewrite H1, H2. split; reflexivity.
  - destruct (Nat.eqb inp cur); simpl; split; reflexivity.
Qed.

(* ---- facts about visit --------------------------------------------------------------------------------- *)
Lemma mem_nat_iff m l : mem Nat.eqb m l = true <-> In m l.
Proof. apply mem_true_iff. intros a b. apply Nat.eqb_eq. Qed.

Lemma visit_in m st vis : In m vis -> visit m (st, vis) = (st, vis).
Proof. intros H. unfold visit. rewrite (proj2 (mem_nat_iff m vis) H). reflexivity. Qed.

Lemma visit_notin m st vis : ~ In m vis -> visit m (st, vis) = (m :: st, vis ++ [m]).
Proof.
  intros H. unfold visit. destruct (mem Nat.eqb m vis) eqn:E; [|reflexivity].
  apply mem_nat_iff in E. contradiction.
Qed.

Lemma NoDup_snoc {A} (l : list A) x : NoDup l -> ~ In x l -> NoDup (l ++ [x]).
Proof.
  induction l as [|a l IH]; simpl; intros H Hn; [constructor; [intros []|constructor]|].
  inversion H as [|? ? Ha Hl]; subst. constructor.
  - intros Hin. apply in_app_iff in Hin. destruct Hin as [Hin|[->|[]]]; [contradiction|]. apply Hn. left. reflexivity.
  - apply IH; [exact Hl|]. intros Hx. apply Hn. right. exact Hx.
Qed.

(* work-list invariant *)
Record wl_inv (stack visited popped : list nat) : Prop := {
  wi_split : forall x, In x visited <-> In x popped \/ In x stack;
  wi_nodup_stack : NoDup stack;
  wi_nodup_pop : NoDup popped;
  wi_disj : forall x, In x popped -> ~ In x stack
}.

Lemma visit_inv m st vis pop :
  wl_inv st vis pop ->
  wl_inv (fst (visit m (st, vis))) (snd (visit m (st, vis))) pop
  /\ In m (snd (visit m (st, vis))) /\ incl vis (snd (visit m (st, vis))).
Proof.
  intros [H1 H2 H3 H4]. destruct (in_dec Nat.eq_dec m vis) as [Hin|Hnin].
  - rewrite (visit_in m st vis Hin). simpl. split; [constructor; assumption|]. split; [exact Hin|apply incl_refl].
  - rewrite (visit_notin m st vis Hnin). simpl.
    split; [|split; [apply in_or_app; right; left; reflexivity|apply incl_appl, incl_refl]].
    constructor.
    + intros x. rewrite in_app_iff. simpl. rewrite H1. tauto.
    + constructor; [|exact H2]. intros Hs. apply Hnin. apply H1. right. exact Hs.
    + exact H3.
    + intros x Hx [->|Hs]; [apply Hnin; apply H1; left; exact Hx|exact (H4 x Hx Hs)].
Qed.

Lemma visits_inv l : forall st vis pop,
  wl_inv st vis pop ->
  wl_inv (fst (visits l (st, vis))) (snd (visits l (st, vis))) pop
  /\ incl l (snd (visits l (st, vis))) /\ incl vis (snd (visits l (st, vis))).
Proof.
  induction l as [|m r IH]; intros st vis pop H.
  - simpl. split; [exact H|]. split; [intros x []|apply incl_refl].
  - change (visits (m :: r) (st, vis)) with (visits r (visit m (st, vis))).
    destruct (visit_inv m st vis pop H) as [V1 [V2 V3]].
    destruct (visit m (st, vis)) as [st1 vis1]. simpl in V1, V2, V3.
    destruct (IH st1 vis1 pop V1) as [I1 [I2 I3]]. split; [exact I1|]. split.
    + intros x [->|Hx]; [apply I3; exact V2|apply I2; exact Hx].
    + eapply incl_tran; eassumption.
Qed.

(* ---- the loop --------------------------------------------------------------------------------------------- *)
Definition closed_under (ds : decls) (inp : nat) (popped visited : list nat) : Prop :=
  forall i, In i popped -> incl (deps_v ds inp i) visited.

Lemma loop_inv ds inp : forall fuel b,
  wl_inv (fst (bs_sv b)) (snd (bs_sv b)) (bs_pop b) ->
  closed_under ds inp (bs_pop b) (snd (bs_sv b)) ->
  let b' := build_loop fuel ds inp b in
  wl_inv (fst (bs_sv b')) (snd (bs_sv b')) (bs_pop b')
  /\ closed_under ds inp (bs_pop b') (snd (bs_sv b'))
  /\ incl (snd (bs_sv b)) (snd (bs_sv b'))
  /\ (fst (bs_sv b') = [] \/ length (bs_pop b') = length (bs_pop b) + fuel).
Proof.
  induction fuel as [|f IH]; intros b Hw Hc; simpl.
  - split; [exact Hw|]. split; [exact Hc|]. split; [apply incl_refl|]. right. lia.
  - destruct (bs_sv b) as [st vis] eqn:Esv. simpl in *. destruct st as [|cur rest].
    + rewrite Esv. simpl. split; [exact Hw|]. split; [exact Hc|]. split; [apply incl_refl|]. left. reflexivity.
    + set (b1 := {| bs_g := bs_g b; bs_map := bs_map b; bs_recs := bs_recs b; bs_synth := bs_synth b;
                    bs_sv := (rest, vis); bs_pop := bs_pop b ++ [cur] |}).
      destruct (visit_node_sv ds inp cur b1) as [V1 V2]. simpl in V1, V2.
      destruct Hw as [H1 H2 H3 H4].
      assert (Hw1 : wl_inv rest vis (bs_pop b ++ [cur])).
      { inversion H2 as [|? ? Hnin Hnd]; subst. constructor.
        - intros x. rewrite in_app_iff. simpl. rewrite H1. simpl. tauto.
        - exact Hnd.
        - apply NoDup_snoc; [exact H3|]. intros Hx. apply (H4 cur Hx). left. reflexivity.
        - intros x Hx Hs. apply in_app_iff in Hx. destruct Hx as [Hx|[->|[]]].
          + apply (H4 x Hx). right. exact Hs.
          + contradiction. }
      pose proof (visits_inv (deps_v ds inp cur) rest vis (bs_pop b ++ [cur]) Hw1) as VI.
      destruct (visits (deps_v ds inp cur) (rest, vis)) as [st2 vis2] eqn:Ev. simpl in VI. destruct VI as [W2 [I2 I3]].
      pose proof V1 as Hsv.
      specialize (IH (visit_node ds inp cur b1)). rewrite Hsv, V2 in IH. simpl in IH.
      destruct IH as [A [B [C D]]].
      * exact W2.
      * intros i Hi. apply in_app_iff in Hi. destruct Hi as [Hi|[->|[]]].
        -- eapply incl_tran; [apply Hc; exact Hi|exact I3].
        -- exact I2.
      * split; [exact A|]. split; [exact B|]. split; [eapply incl_tran; eassumption|].
        destruct D as [D|D]; [left; exact D|right]. rewrite D, app_length. simpl. lia.
Qed.

Lemma visits_from l : forall st vis x, In x (snd (visits l (st, vis))) -> In x vis \/ In x l.
Proof.
  induction l as [|m r IH]; intros st vis x H; [left; exact H|].
  change (visits (m :: r) (st, vis)) with (visits r (visit m (st, vis))) in H.
  destruct (in_dec Nat.eq_dec m vis) as [Hin|Hnin].
  - rewrite (visit_in m st vis Hin) in H. destruct (IH st vis x H); [left; assumption|right; right; assumption].
  - rewrite (visit_notin m st vis Hnin) in H. destruct (IH _ _ x H) as [Hx|Hx]; [|right; right; exact Hx].
    apply in_app_iff in Hx. destruct Hx as [Hx|[->|[]]]; [left; exact Hx|right; left; reflexivity].
Qed.

Definition in_range (ds : decls) (inp out : nat) : Prop :=
  inp < length ds /\ out < length ds /\ forall i m, i < length ds -> In m (deps_v ds inp i) -> m < length ds.

Lemma loop_range ds inp out (R : in_range ds inp out) : forall fuel b,
  (forall x, In x (snd (bs_sv b)) -> x < length ds) -> (forall x, In x (fst (bs_sv b)) -> In x (snd (bs_sv b))) ->
  wl_inv (fst (bs_sv b)) (snd (bs_sv b)) (bs_pop b) ->
  forall x, In x (snd (bs_sv (build_loop fuel ds inp b))) -> x < length ds.
Proof.
  induction fuel as [|f IH]; intros b Hr Hs Hw x Hx; simpl in Hx; [apply Hr; exact Hx|].
  destruct (bs_sv b) as [st vis] eqn:Esv. simpl in *. destruct st as [|cur rest].
  - rewrite Esv in Hx. apply Hr. exact Hx.
  - set (b1 := {| bs_g := bs_g b; bs_map := bs_map b; bs_recs := bs_recs b; bs_synth := bs_synth b;
                  bs_sv := (rest, vis); bs_pop := bs_pop b ++ [cur] |}) in *.
    destruct (visit_node_sv ds inp cur b1) as [V1 V2]. simpl in V1, V2.
    destruct Hw as [H1 H2 H3 H4].
    assert (Hw1 : wl_inv rest vis (bs_pop b ++ [cur])).
    { inversion H2 as [|? ? Hnin Hnd]; subst. constructor.
      - intros y. rewrite in_app_iff. simpl. rewrite H1. simpl. tauto.
      - exact Hnd.
      - apply NoDup_snoc; [exact H3|]. intros Hy. apply (H4 cur Hy). left. reflexivity.
      - intros y Hy Hs'. apply in_app_iff in Hy. destruct Hy as [Hy|[->|[]]].
        + apply (H4 y Hy). right. exact Hs'.
        + contradiction. }
    pose proof (visits_inv (deps_v ds inp cur) rest vis (bs_pop b ++ [cur]) Hw1) as VI.
    destruct (visits (deps_v ds inp cur) (rest, vis)) as [st2 vis2] eqn:Ev. simpl in VI. destruct VI as [W2 [I2 I3]].
    apply (IH (visit_node ds inp cur b1)); [| |rewrite V1, V2; exact W2|exact Hx].
    + rewrite V1. simpl. intros y Hy. pose proof (visits_from (deps_v ds inp cur) rest vis y) as F.
      rewrite Ev in F. destruct (F Hy) as [Hv|Hd]; [apply Hr; exact Hv|].
      destruct R as [_ [_ R3]]. apply (R3 cur y); [|exact Hd]. apply Hr. apply Hs. left. reflexivity.
    + rewrite V1. simpl. intros y Hy. apply W2. right. exact Hy.
Qed.

Lemma nodup_bounded n : forall l, NoDup l -> (forall x, In x l -> x < n) -> length l <= n.
Proof.
  intros l Hnd Hb. rewrite <- (seq_length n 0). apply NoDup_incl_length; [exact Hnd|].
  intros x Hx. apply in_seq. specialize (Hb x Hx). lia.
Qed.

(* reachability through what the traversal follows *)
Inductive reach (ds : decls) (inp src : nat) : nat -> Prop :=
| reach_refl : reach ds inp src src
| reach_step j k : reach ds inp src j -> In k (deps_v ds inp j) -> reach ds inp src k.

Local Opaque build_loop.

Theorem traversal_complete ds inp out :
  in_range ds inp out -> inp <> out ->
  forall i, reach ds inp out i -> In i (b_pop (build ds inp out)).
Proof.
  intros R Hne i Hreach. unfold build. destruct (Nat.eqb_spec inp out) as [E|_]; [contradiction|]. simpl.
  set (b0 := {| bs_g := graph0; bs_map := [inp]; bs_recs := []; bs_synth := []; bs_sv := ([out], [out]); bs_pop := [] |}).
  assert (W0 : wl_inv (fst (bs_sv b0)) (snd (bs_sv b0)) (bs_pop b0)).
  { simpl. constructor; [intros x; simpl; tauto|constructor; [intros []|constructor]|constructor|intros x []]. }
  assert (C0 : closed_under ds inp (bs_pop b0) (snd (bs_sv b0))) by (intros x []).
  destruct (loop_inv ds inp (S (length ds)) b0 W0 C0) as [A [B [C D]]].
  assert (Hrange : forall x, In x (snd (bs_sv (build_loop (S (length ds)) ds inp b0))) -> x < length ds).
  { apply (loop_range ds inp out R); [| |exact W0].
    - simpl. intros x [<-|[]]. apply R.
    - simpl. tauto. }
  set (bf := build_loop (S (length ds)) ds inp b0) in *.
  assert (Hempty : fst (bs_sv bf) = []).
  { destruct D as [D|D]; [exact D|]. exfalso. simpl in D.
    assert (length (bs_pop bf) <= length ds).
    { apply nodup_bounded; [apply A|]. intros x Hx. apply Hrange. apply A. left. exact Hx. }
    lia. }
  assert (Hvp : forall x, In x (snd (bs_sv bf)) -> In x (bs_pop bf)).
  { intros x Hx. apply A in Hx. rewrite Hempty in Hx. destruct Hx as [Hx|[]]. exact Hx. }
  clearbody bf. clear D Hrange Hempty W0 C0.
  induction Hreach as [|j k Hr IHr Hk].
  - apply Hvp. apply C. simpl. left. reflexivity.
  - apply Hvp. apply (B j IHr). exact Hk.
Qed.

