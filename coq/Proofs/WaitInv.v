(* Waiter bookkeeping, for every program and schedule:
   (1) a task that is parked is registered as a waiter of what it waits for (so a completion / notification finds it);
   (2) what a parked task waits for is determined by the frame on top of its stack. *)
From MLPE Require Import Engine.Run Proofs.ExecLemmas Proofs.Evolve Proofs.ReadyInv.

Definition wc (st : mstate) : Prop :=
  forall t x w k, find_task t (st_tasks st) = Some x -> t_state x = TWait w k -> In (w, t) (st_waiters st).

Lemma wc_same st st' : st_tasks st' = st_tasks st -> st_waiters st' = st_waiters st -> wc st -> wc st'.
Proof. unfold wc. intros -> ->. auto. Qed.
Lemma wc_emit_obs o st : wc st -> wc (emit_obs o st). Proof. apply wc_same; reflexivity. Qed.
Lemma wc_with_store f st : wc st -> wc (with_store f st). Proof. apply wc_same; reflexivity. Qed.
Lemma wc_bump c st : wc st -> wc (bump c st). Proof. apply wc_same; reflexivity. Qed.
Lemma wc_set_adddata k v st : wc st -> wc (set_adddata k v st). Proof. apply wc_same; reflexivity. Qed.
Lemma wc_push_ready t st : wc st -> wc (push_ready t st). Proof. apply wc_same; reflexivity. Qed.
Lemma wc_add_event n st : wc st -> wc (add_event n st). Proof. apply wc_same; reflexivity. Qed.
Lemma wc_dequeue st : wc st -> wc (dequeue st). Proof. apply wc_same; reflexivity. Qed.

(* a task's state is replaced by one that is not parked *)
Lemma wc_unpark t ts st : (match ts with TWait _ _ => False | _ => True end) -> wc st -> wc (set_tstate t ts st).
Proof.
  unfold wc. intros Hts H t' x w k Hx Hw. apply find_set_tstate in Hx. destruct Hx as [[-> [y [Hy ->]]]|[Hne Hx]].
  - cbn in Hw. subst ts. contradiction.
  - cbn [set_tstate st_waiters]. exact (H t' x w k Hx Hw).
Qed.

Lemma wc_wake t sg st : wc st -> wc (wake t sg st).
Proof.
  intros H. unfold wake. destruct (find_task t (st_tasks st)) as [[i nm [k s|w k|r] h]|]; try exact H.
  apply wc_push_ready. apply wc_unpark; [exact I|exact H].
Qed.

Lemma wake_parked t1 sg (s : mstate) t x w k :
  find_task t (st_tasks (wake t1 sg s)) = Some x -> t_state x = TWait w k -> t <> t1 /\ find_task t (st_tasks s) = Some x.
Proof.
  unfold wake. destruct (find_task t1 (st_tasks s)) as [[i nm [k0 s0|w0 k0|r] h]|] eqn:F; intros Hx Hk.
  - split; [|exact Hx]. intros ->. rewrite F in Hx. inversion Hx; subst. discriminate Hk.
  - cbn [push_ready st_tasks] in Hx. apply find_set_tstate in Hx. destruct Hx as [[-> [y [Hy ->]]]|[Hne Hx]]; [discriminate Hk|auto].
  - split; [|exact Hx]. intros ->. rewrite F in Hx. inversion Hx; subst. discriminate Hk.
  - split; [|exact Hx]. intros ->. rewrite F in Hx. discriminate Hx.
Qed.

Lemma wake_waiters t1 sg (s : mstate) : st_waiters (wake t1 sg s) = st_waiters s.
Proof. unfold wake. destruct (find_task t1 (st_tasks s)) as [[i nm [k0 s0|w0 k0|r] h]|]; reflexivity. Qed.

(* removing waiter entries of one kind and waking exactly those tasks *)
Lemma wc_wake_all w sg st : wc st -> wc (wake_all w sg st).
Proof.
  intros H. unfold wake_all.
  set (hit := filter (fun p : wait * tid => wait_eqb (fst p) w) (st_waiters st)).
  set (rest := filter (fun p : wait * tid => negb (wait_eqb (fst p) w)) (st_waiters st)).
  (* invariant of the fold: a parked task is in [rest] or still to be woken (in the remaining part of [hit]) *)
  assert (G : forall l s, st_waiters s = rest ->
                          (forall t x w' k, find_task t (st_tasks s) = Some x -> t_state x = TWait w' k -> In (w', t) rest \/ In (w', t) l) ->
                          wc (fold_left (fun s (p : wait * tid) => wake (snd p) sg s) l s)).
  { induction l as [|[w1 t1] l IH]; intros s Hw Hs; cbn [fold_left].
    - intros t x w' k Hx Hk. rewrite Hw. destruct (Hs t x w' k Hx Hk) as [A|[]]. exact A.
    - apply IH.
      + cbn [snd]. rewrite wake_waiters. exact Hw.
      + intros t x w' k Hx Hk. cbn [snd] in Hx. destruct (wake_parked t1 sg s t x w' k Hx Hk) as [Hne Hx0].
        destruct (Hs t x w' k Hx0 Hk) as [A|[A|A]]; [left; exact A| |right; exact A]. inversion A; subst. contradiction. }
  apply G.
  - reflexivity.
  - intros t x w' k Hx Hk. cbn [set_waiters st_tasks] in Hx. pose proof (H t x w' k Hx Hk) as Hin.
    destruct (wait_eqb w' w) eqn:E.
    + right. apply filter_In. split; [exact Hin|exact E].
    + left. apply filter_In. split; [exact Hin|cbn; rewrite E; reflexivity].
Qed.

Lemma wc_notify c st : wc st -> wc (notify c st). Proof. apply wc_wake_all. Qed.
Lemma wc_notify_keys ks st : wc st -> wc (notify_keys ks st).
Proof. unfold notify_keys. revert st; induction ks as [|k r IH]; intros st H; cbn [fold_left]; [exact H|]. apply IH, wc_notify, H. Qed.
Lemma wc_set_event n st : wc st -> wc (set_event n st).
Proof. intros H. change (set_event n st) with (wake_all (WEvent n) SGo (add_event n st)). apply wc_wake_all, wc_add_event, H. Qed.

Lemma wc_cancel_task t st : wc st -> wc (cancel_task t st).
Proof.
  intros H. unfold cancel_task. destruct (find_task t (st_tasks st)) as [[i nm [k s|w k|r] h]|] eqn:F; try exact H.
  - apply wc_unpark; [exact I|exact H].
  - apply wc_push_ready. intros t' x w' k' Hx Hk. apply find_set_tstate in Hx. destruct Hx as [[-> [y [Hy ->]]]|[Hne Hx]]; [discriminate Hk|].
    cbn [set_tstate set_waiters st_waiters st_tasks] in *. apply filter_In. split; [exact (H t' x w' k' Hx Hk)|].
    cbn. apply negb_true_iff. apply Nat.eqb_neq. exact Hne.
Qed.
Lemma wc_cancel_tasks ts st : wc st -> wc (cancel_tasks ts st).
Proof. unfold cancel_tasks. revert st; induction ts as [|t r IH]; intros st H; cbn [fold_left]; [exact H|]. apply IH, wc_cancel_task, H. Qed.
Lemma wc_finally_a n st : wc st -> wc (finally_a n st).
Proof. intros H. unfold finally_a. apply wc_notify, wc_set_event, H. Qed.
Lemma wc_finally_b P d n st : wc st -> wc (finally_b P d n st).
Proof.
  intros H. unfold finally_b. destruct (key_eqb n (d_dst d)).
  - apply wc_notify, wc_notify, wc_notify_keys, wc_set_event, H.
  - apply wc_notify, wc_notify_keys, wc_set_event, H.
Qed.
Lemma wc_fold_hide (l : list key) st : wc st -> wc (fold_left (fun s k => emit_obs (OHide k) s) l st).
Proof. revert st; induction l as [|k r IH]; intros st H; cbn [fold_left]; [exact H|]. apply IH, wc_emit_obs, H. Qed.
Lemma wc_spawn nm h k st : wc st -> wc (fst (spawn nm h k st)).
Proof.
  unfold wc, spawn. cbn [fst st_tasks st_waiters]. intros H t x w k' Hx Hk. rewrite find_task_app in Hx.
  destruct (find_task t (st_tasks st)) as [y|] eqn:F; [inversion Hx; subst; exact (H t x w k' F Hk)|].
  cbn [find_task t_id] in Hx. destruct (Nat.eqb (st_next st) t); [|discriminate]. inversion Hx; subst. discriminate Hk.
Qed.
Lemma wc_suspend t w k st : wc st -> wc (suspend t w k st).
Proof.
  unfold wc, suspend. intros H t' x w' k' Hx Hk. cbn [set_waiters st_tasks st_waiters] in *.
  apply find_set_tstate in Hx. destruct Hx as [[-> [y [Hy ->]]]|[Hne Hx]].
  - cbn in Hk. inversion Hk; subst. apply in_or_app. right. left. reflexivity.
  - apply in_or_app. left. exact (H t' x w' k' Hx Hk).
Qed.
Lemma wc_abort P st : wc (abort P st).
Proof.
  intros t x w k Hx Hk. unfold abort in Hx. cbn [st_tasks] in Hx. exfalso. revert Hx. generalize (st_tasks st).
  induction l as [|z l IH]; cbn [map find_task t_id]; [discriminate|].
  destruct (Nat.eqb (t_id z) t); [intros Hx; inversion Hx; subst; discriminate Hk|exact IH].
Qed.

Ltac wc_prims :=
  repeat first
         [ assumption
         | apply wc_notify | apply wc_notify_keys | apply wc_set_event | apply wc_cancel_tasks | apply wc_cancel_task
         | apply wc_finally_a | apply wc_finally_b | apply wc_emit_obs | apply wc_with_store | apply wc_bump
         | apply wc_set_adddata | apply wc_push_ready | apply wc_fold_hide | apply wc_wake_all | apply wc_spawn ].

Section Wait.
  Variable P : prog.

  Lemma wc_step_frame t fr sg st : wc st -> wc (fst (step_frame P t fr sg st)).
  Proof.
    intros H. destruct fr; destruct sg; cbn [step_frame]; unfold default_or_raise, reduced;
      repeat break_match; spawn_norm; cbn [fst]; wc_prims.
  Qed.

  Lemma wc_exec fuel t k sg st : wc st -> wc (exec P fuel t k sg st).
  Proof.
    intros H0. apply (exec_rule P t (fun _ _ s => wc s) wc); [| |exact H0].
    - intros sg' s H. apply wc_unpark; [exact I|exact H].
    - intros fr rest sg' s H. split; [apply wc_abort|].
      pose proof (wc_step_frame t fr sg' s H) as H1.
      destruct (step_frame P t fr sg' s) as [st1 [w k'|k'|k' sg''|sg'']]; cbn [fst] in *; try exact H1.
      + apply wc_suspend. exact H1.
      + apply wc_push_ready. apply wc_unpark; [exact I|exact H1].
  Qed.

  Theorem reachable_wc : forall st, reachable P st -> wc st.
  Proof.
    apply (reachable_inv P wc).
    - intros t x w k Hx Hk. unfold init_state, spawn in Hx. cbn in Hx. destruct t; [|discriminate]. inversion Hx; subst. discriminate Hk.
    - intros st _ H. rewrite loop_step_unfold. destruct (st_ready st) as [|t rest]; [exact H|].
      destruct (find_task t (st_tasks st)) as [x|]; [|apply wc_dequeue; exact H].
      destruct (t_state x) as [k sg|w k|r]; [apply wc_exec, wc_dequeue, H|apply wc_dequeue; exact H|apply wc_dequeue; exact H].
    - intros st g _ H. unfold complete_gate. apply wc_wake_all. exact H.
    - intros st _ H. apply wc_cancel_task. exact H.
  Qed.
End Wait.

(* ---- a notification wakes every task parked on that condition -------------------------------------- *)
Lemma wait_eqb_refl w : wait_eqb w w = true.
Proof.
  destruct w as [[|k]|k|g]; cbn; rewrite ?key_eqb_refl; try reflexivity.
  destruct g as [i k|i k|ev n m k|n k]; cbn; rewrite ?Nat.eqb_refl, ?key_eqb_refl; try reflexivity.
  destruct ev; destruct n as [x|]; cbn; rewrite ?key_eqb_refl; reflexivity.
Qed.

Lemma wake_all_waiters w sg (st : mstate) :
  st_waiters (wake_all w sg st) = filter (fun p : wait * tid => negb (wait_eqb (fst p) w)) (st_waiters st).
Proof.
  unfold wake_all. generalize (filter (fun p : wait * tid => wait_eqb (fst p) w) (st_waiters st)).
  assert (G : forall l (s : mstate), st_waiters (fold_left (fun s (p : wait * tid) => wake (snd p) sg s) l s) = st_waiters s).
  { induction l as [|p r IH]; intros s; cbn [fold_left]; [reflexivity|]. rewrite IH, wake_waiters. reflexivity. }
  intros l. rewrite G. reflexivity.
Qed.

Lemma nobody_parked_after_wake_all w sg st t x k :
  wc st -> find_task t (st_tasks (wake_all w sg st)) = Some x -> t_state x <> TWait w k.
Proof.
  intros H Hx Hk. pose proof (wc_wake_all w sg st H t x w k Hx Hk) as Hin. rewrite wake_all_waiters in Hin.
  apply filter_In in Hin. destruct Hin as [_ Hin]. cbn in Hin. rewrite wait_eqb_refl in Hin. discriminate Hin.
Qed.

(* ---- what a parked task waits for is decided by the frame on top of its stack -------------------------- *)
Definition wait_kind_ok (w : wait) (f : frame) : Prop :=
  match f, w with
  | FEmit _ _ _ _ _ true, WGate (GEmit _ _ _ _) => True
  | FSave _ _ true _, WGate (GSave _ _) => True
  | FRetryAfterBody _ _ _, WGate (GBody _ _) => True
  | FRetryAfterSleep _ _ _, WGate (GTimer _ _) => True
  | FRunWait, WCond CRun => True
  | FDagLoop _ (n :: _) _, WCond (CNode n') => n' = n
  | FDagFinal d, WCond (CNode n') => n' = d_dst d
  | FOneOfWait _ _ c _ _, WCond (CNode n') => n' = c
  | FExecDup n, WEvent n' => n' = n
  | _, _ => False
  end.

Definition wk_TP (x : task frame) : Prop :=
  match t_state x with
  | TWait w (f :: _) => wait_kind_ok w f
  | TWait _ [] => False
  | _ => True
  end.
Lemma wk_wake x w k : t_state x = TWait w k -> wk_TP x -> wk_TP (with_ts x (TReady k SGo)). Proof. intros. exact I. Qed.
Lemma wk_cancel_ready x k sg : t_state x = TReady k sg -> wk_TP x -> wk_TP (with_ts x (TReady k (SThrow XCancelled))). Proof. intros. exact I. Qed.
Lemma wk_cancel_wait x w k : t_state x = TWait w k -> wk_TP x -> wk_TP (with_ts x (TReady k (SThrow XCancelled))). Proof. intros. exact I. Qed.
Lemma wk_spawn i nm f : 1 <= i -> spawn_frame f = true -> wk_TP {| t_id := i; t_name := nm; t_state := TReady [f] SGo; t_helper := true |}.
Proof. intros. exact I. Qed.

Section WaitKind.
  Variable P : prog.

  Lemma step_suspend_kind t fr sg st w k' :
    snd (step_frame P t fr sg st) = DSuspend w k' -> exists f r, k' = f :: r /\ wait_kind_ok w f.
  Proof.
    destruct fr; destruct sg; cbn [step_frame]; unfold default_or_raise, reduced; repeat break_match; cbn [snd];
      intros H; try discriminate H; inversion H; subst; do 2 eexists; (split; [reflexivity|cbn; auto]).
  Qed.

  Theorem reachable_wait_kind : forall st, reachable P st -> tasks_ok wk_TP st.
  Proof.
    apply (reachable_inv P (tasks_ok wk_TP)).
    - unfold tasks_ok, init_state. cbn. constructor; [exact I|constructor].
    - intros st Hr H. apply (loop_step_rule P (tasks_ok wk_TP)); [exact H|auto| |].
      + intros. apply ok_dequeue. exact H.
      + intros t rest x k sg Hq Hf Ht.
        apply (exec_rule P t (fun _ _ s => tasks_ok wk_TP s /\ 1 <= st_next s) (tasks_ok wk_TP)).
        * intros sg' s [Hs _]. apply ok_set_tstate; [exact Hs|]. intros y _ _. exact I.
        * intros fr rest' sg' s [Hs Hn]. split; [apply ok_abort; [intros y k0 _; exact I|exact Hs]|].
          pose proof (step_frame_tasks_ok P wk_TP wk_wake wk_cancel_ready wk_cancel_wait wk_spawn t fr sg' s Hn Hs) as Hs1.
          pose proof (ev_next _ _ (ev_step_frame P t fr sg' s)) as Hn1. pose proof (step_suspend_kind t fr sg' s) as Hk.
          destruct (step_frame P t fr sg' s) as [st1 [w k'|k'|k' sg''|sg'']]; cbn [fst snd] in *.
          -- apply ok_suspend; [exact Hs1|]. intros y _ _. unfold wk_TP. cbn. destruct (Hk w k' eq_refl) as [f [r [-> Hw]]]. exact Hw.
          -- apply ok_push_ready. apply ok_set_tstate; [exact Hs1|]. intros y _ _. exact I.
          -- split; [exact Hs1|lia].
          -- split; [exact Hs1|lia].
        * split; [apply ok_dequeue; exact H|cbn; exact (reachable_next P st Hr)].
    - intros st g _ H. apply (complete_gate_tasks_ok wk_TP wk_wake). exact H.
    - intros st _ H. apply (ok_cancel_task wk_TP wk_cancel_ready wk_cancel_wait). exact H.
  Qed.
End WaitKind.
