(* Plain programs, every schedule: where exceptions come from. Every exception that is in flight anywhere -- thrown into a frame,
   held by a frame while a callback is emitted, the result of a finished task -- was raised by a node body of this program at the
   attempt it names, by an event manager or by the artifact store (or is the pool-not-ready error, or a CancelledError). Never an
   internal lookup error, never the interpreter's out-of-fuel artefact. What PipelineChart.run reports as PipelineResult.error is
   such an exception and is an Exception; what it raises is such an exception or the caller's CancelledError. *)
From MLPE Require Import Engine.Run Proofs.ExecLemmas Proofs.Evolve Proofs.StackInv Proofs.ReadyInv Proofs.WaitInv Explore.StateEq
     Proofs.ProcessedInv Proofs.PlainWorld Proofs.PlainLaunch Proofs.PlainLive Proofs.Micro Proofs.PlainBase Proofs.PlainCore Proofs.PlainInv
     Proofs.PlainRoles Proofs.PlainExec.

Definition frame_exns (f : frame) : list exn :=
  match f with
  | FExecAfterErr _ e | FChartAfterEmitErr e | FEmit _ _ (Some e) _ _ _ => [e]
  | _ => []
  end.
Definition sig_exns (sg : signal) : list exn := match sg with SThrow e | SResErr e => [e] | _ => [] end.

Lemma decide_raise nd oc att c :
  retry_decide nd oc att = RDFinal c \/ retry_decide nd oc att = RDPropagate c \/ retry_decide nd oc att = RDRetry c -> oc = ORaise c.
Proof.
  unfold retry_decide. destruct oc as [v|c0]; [intros [H|[H|H]]; discriminate H|].
  repeat break_match; intros [H|[H|H]]; try discriminate H; inversion H; reflexivity.
Qed.

Section Errors.
  Variable P : prog.
  Notation G := (b_graph (build (p_decls P) (p_inp P) (p_out P))).
  Hypothesis Hsw : forall n, is_switch G n = false.
  Hypothesis Hhd : forall n, is_head G n = false.
  Hypothesis Hbody : forall i kw a v, p_body P i kw a = OVal v -> clean v = true.

  Definition raised (e : exn) : Prop :=
    match e with
    | XNode c i a => exists kw, p_body P i kw a = ORaise c
    | XMgr _ | XStore _ => True
    | XEng EArtifactExists _ | XEng EPoolNotReady _ => True
    | _ => False
    end.
  Definition legit (e : exn) : Prop := e = XCancelled \/ raised e.

  Definition frame_ok (f : frame) : Prop :=
    (forall e, In e (frame_exns f) -> legit e) /\ (forall e, f = FChartAfterEmitErr e -> is_Exception e = true).
  Definition sig_ok (sg : signal) : Prop :=
    (forall e, In e (sig_exns sg) -> legit e) /\ (forall e, sg = SResErr e -> is_Exception e = true).
  Definition stack_ok (k : list frame) : Prop := forall f, In f k -> frame_ok f.
  Definition legit_TP (x : task frame) : Prop :=
    match t_state x with
    | TReady k sg => stack_ok k /\ sig_ok sg
    | TWait _ k => stack_ok k
    | TDone sg => sig_ok sg
    end.
  Definition legit_cur (c : running) : Prop := match c with Some (_, k, sg) => stack_ok k /\ sig_ok sg | None => True end.
  Definition dir_legit (d : directive) : Prop :=
    stack_ok (dir_frames d) /\ (forall s, dir_sig d = Some s -> sig_ok s).

  Lemma node_kwargs_some st n : node_kwargs P st n <> None.
  Proof.
    unfold node_kwargs. destruct (key_eqb n _).
    - destruct (alookup key_eqb n (st_adddata st)) as [v|]; [destruct v|]; discriminate.
    - match goal with |- context [fold_left ?f ?l ?a] => assert (K : forall l0 acc, acc <> None -> fold_left f l0 acc <> None) end.
      { induction l0 as [|pe r IH]; intros acc Ha; cbn [fold_left]; [exact Ha|]. apply IH. destruct acc as [kw|]; [|contradiction].
        destruct (ea_kwarg (snd pe)); [|discriminate]. rewrite Hsw. discriminate. }
      match goal with |- context [fold_left ?f ?l ?a] => pose proof (K l a) as K0; destruct (fold_left f l a) as [kw|] end;
        [destruct (alookup key_eqb n (st_adddata st)) as [v|]; [destruct v|]; discriminate|exfalso; apply K0; [discriminate|reflexivity]].
  Qed.

  Lemma task_errors_legit st e : tasks_ok legit_TP st -> In e (task_errors st) -> legit e.
  Proof.
    unfold tasks_ok, task_errors. rewrite Forall_forall. intros H Hin. apply in_flat_map in Hin. destruct Hin as [x [Hx Hin]].
    specialize (H x Hx). unfold legit_TP in H. destruct (t_helper x); [|contradiction]. destruct (t_state x) as [| |r]; try contradiction.
    destruct r as [| | |e0|]; try contradiction. destruct H as [H _]. apply H. cbn. destruct e0; cbn in Hin; try contradiction; destruct Hin as [<-|[]]; left; reflexivity.
  Qed.

  Ltac plain_prep11 :=
    repeat match goal with
           | H : (_ && _)%bool = true |- _ => apply andb_true_iff in H; destruct H
           | H : is_main P ?d = true |- _ => apply is_main_eq in H; subst d
           | H : negb ?f = true |- _ => apply negb_true_iff in H; subst f
           | H : ?u = true |- _ => is_var u; subst u
           end.

  Ltac legit_solve :=
    repeat match goal with
           | |- _ /\ _ => split
           | |- forall _, _ => intro
           | H : In _ [] |- _ => destruct H
           | H : In _ (_ :: _) |- _ => destruct H as [H|H]; [subst|]
           | H : Some _ = Some _ |- _ => inversion H; subst; clear H
           | H : FChartAfterEmitErr _ = FChartAfterEmitErr _ |- _ => inversion H; subst; clear H
           | H : SResErr _ = SResErr _ |- _ => inversion H; subst; clear H
           | H : In _ (frame_exns _) |- _ => cbn [frame_exns emit_frames] in H
           | H : In _ (sig_exns _) |- _ => cbn [sig_exns] in H
           end.

  Lemma plain_step_legit t fr sg st :
    plain_frame P fr = true -> clean_sig sg -> PS st -> handled fr sg = true ->
    frame_ok fr -> sig_ok sg -> tasks_ok legit_TP st ->
    dir_legit (snd (step_frame P t fr sg st)).
  Proof.
    intros Hf Hs Hst Hh [Fo1 Fo2] [So1 So2] Hto. pose proof Hst as Hst'. unfold PS in Hst'.
    pose proof (task_errors_legit st) as Hte.
    destruct fr; try discriminate Hf; cbn [plain_frame] in Hf; plain_prep11;
      destruct sg; cbn [clean_sig] in Hs; try discriminate Hh;
      try match goal with H : clean ?v = true |- _ => pose proof (clean_not_rec v H) as Hnr; pose proof (clean_not_exn v H) as Hne end;
      cbn [step_frame]; rewrite ?Hnr, ?Hne, ?Hsw, ?Hhd, ?(plain_dep_error P _ _ _ Hst'), ?(plain_no_subgraph_error _ _ Hst');
      unfold default_or_raise, reduced; cbn [d_oneof d_rec maind andb];
      repeat break_match; unfold dir_legit, stack_ok, frame_ok, sig_ok; cbn [snd dir_frames dir_sig];
      legit_solve; try discriminate; try contradiction;
      try (apply Fo1; cbn [frame_exns]; left; reflexivity);
      try (apply So1; cbn [sig_exns]; left; reflexivity);
      try (right; cbn [raised]; exact I);
      try assumption;
      try match goal with Hn : node_kwargs P _ _ = None |- _ => exfalso; exact (node_kwargs_some _ _ Hn) end;
      try match goal with Hq : task_errors _ = ?e :: ?r |- legit (pick_error _ ?e ?r) => apply Hte; [exact Hto|rewrite Hq; apply pick_error_in] end;
      try match goal with Hd : retry_decide _ ?oc _ = _ |- legit (XNode _ _ _) =>
            right; cbn [raised]; eexists; apply (decide_raise _ oc _ _); eauto end;
      try (apply Fo2; reflexivity).
    all: try (apply Fo1; cbn; auto; fail).
    all: try (apply So1; cbn; auto; fail).
    all: try (apply Hte; [exact Hto|left; reflexivity]).
    all: try (apply Hte; [exact Hto|apply pick_error_in]).
    all: try (right; cbn; eexists; eapply decide_raise; eauto; fail).
    all: try match goal with Hq : dep_error _ _ _ _ = Some _ |- _ => rewrite (plain_dep_error P _ _ _ Hst') in Hq; discriminate Hq end.
  Qed.

  Lemma sig_ok_go : sig_ok SGo. Proof. split; [intros e []|intros e H; discriminate H]. Qed.
  Lemma sig_ok_cancel : sig_ok (SThrow XCancelled).
  Proof. split; [intros e [<-|[]]; left; reflexivity|intros e H; discriminate H]. Qed.

  Lemma legit_wake x w k : t_state x = TWait w k -> legit_TP x -> legit_TP (with_ts x (TReady k SGo)).
  Proof. unfold legit_TP. intros E H. rewrite E in H. cbn. split; [exact H|apply sig_ok_go]. Qed.
  Lemma legit_cancel_ready x k sg : t_state x = TReady k sg -> legit_TP x -> legit_TP (with_ts x (TReady k (SThrow XCancelled))).
  Proof. unfold legit_TP. intros E H. rewrite E in H. cbn. split; [apply H|apply sig_ok_cancel]. Qed.
  Lemma legit_cancel_wait x w k : t_state x = TWait w k -> legit_TP x -> legit_TP (with_ts x (TReady k (SThrow XCancelled))).
  Proof. unfold legit_TP. intros E H. rewrite E in H. cbn. split; [exact H|apply sig_ok_cancel]. Qed.

  Lemma stack_ok_app a b : stack_ok a -> stack_ok b -> stack_ok (a ++ b).
  Proof. intros Ha Hb f Hf. apply in_app_or in Hf. destruct Hf; auto. Qed.
  Lemma stack_ok_single f : (forall e, In e (frame_exns f) -> legit e) -> (forall e, f = FChartAfterEmitErr e -> is_Exception e = true) -> stack_ok [f].
  Proof. intros A B g [<-|[]]. split; assumption. Qed.

  (* the interpreter gave up (cr_abort): every task carries the model-only out-of-fuel artefact, and nothing moves any more *)
  Definition ab_TP (x : task frame) : Prop :=
    t_state x = TDone (SThrow (XEng EOutOfFuel (b_input (build (p_decls P) (p_inp P) (p_out P))))).
  Definition legitI (st : mstate) (c : running) : Prop := tasks_ok ab_TP st \/ (tasks_ok legit_TP st /\ legit_cur c).

  Lemma ab_running st t k sg : base P st (Some (t, k, sg)) -> tasks_ok ab_TP st -> False.
  Proof.
    intros Hb Ha. destruct (b_cur _ _ _ Hb) as [x0 [Hf0 [_ [_ [_ [_ [_ [k0 [sg0 Hrdy]]]]]]]]].
    destruct (find_task_in _ _ _ Hf0) as [Hin _]. unfold tasks_ok in Ha. rewrite Forall_forall in Ha. specialize (Ha x0 Hin). unfold ab_TP in Ha. congruence.
  Qed.

  Theorem creach_legit : forall st c, creach P st c -> legitI st c.
  Proof.
    intros st c H. pose proof (creach_base P Hsw Hhd Hbody st c H) as Hb0.
    induction H as [|st t rest x k sg H IH Hq Hf Ht|st t rest H IH Hq|st t fr rest sg H IH|st t sg H IH|st c H IH|st g H IH|st H IH].
    - right. split; [|exact I]. unfold tasks_ok, init_state. cbn. constructor; [|constructor]. unfold legit_TP. cbn.
      split; [|apply sig_ok_go]. intros f [<-|[]]. split; [intros e []|intros e Hx; discriminate Hx].
    - destruct (IH (creach_base P Hsw Hhd Hbody _ _ H)) as [Ha|[A _]].
      + exfalso. destruct (find_task_in _ _ _ Hf) as [Hin _]. unfold tasks_ok in Ha. rewrite Forall_forall in Ha. specialize (Ha x Hin). unfold ab_TP in Ha. congruence.
      + right. split; [apply ok_dequeue; exact A|].
        destruct (find_task_in _ _ _ Hf) as [Hin _]. unfold tasks_ok in A. rewrite Forall_forall in A. specialize (A x Hin). unfold legit_TP in A. rewrite Ht in A. exact A.
    - destruct (IH (creach_base P Hsw Hhd Hbody _ _ H)) as [Ha|[A _]]; [left; apply ok_dequeue; exact Ha|right]. split; [apply ok_dequeue; exact A|exact I].
    - pose proof (creach_base P Hsw Hhd Hbody _ _ H) as Hb. destruct (IH Hb) as [Ha|[A [Bk Bs]]]; [exfalso; exact (ab_running _ _ _ _ Hb Ha)|right].
      destruct (creach_typed P Hsw Hhd Hbody _ _ H) as [_ Hty]. cbn [typed_cur typed_stack] in Hty.
      destruct (b_cur _ _ _ Hb) as [x0 [Hf0 [Hk [Hs _]]]]. cbn [plain_stack forallb] in Hk. apply andb_true_iff in Hk. destruct Hk as [Kf Kr].
      assert (Bf : frame_ok fr) by (apply Bk; left; reflexivity).
      assert (Br : stack_ok rest) by (intros f Hf; apply Bk; right; exact Hf).
      destruct (plain_step_legit t fr sg st Kf Hs (b_ps _ _ _ Hb) Hty Bf Bs A) as [Dk Ds].
      assert (A1 : tasks_ok legit_TP (fst (step_frame P t fr sg st))).
      { apply (plain_step_tasks_gen P Hsw Hhd legit_TP legit_wake legit_cancel_ready legit_cancel_wait); try assumption; [| |exact (b_ps _ _ _ Hb)];
          intros; unfold legit_TP; cbn; (split; [|apply sig_ok_go]); intros f [<-|[]]; (split; [intros e []|intros e Hx; discriminate Hx]). }
      destruct (step_frame P t fr sg st) as [st1 [w k'|k'|k' sg'|sg']]; cbn [after_step fst snd legit_cur dir_frames dir_sig] in *.
      + split; [|exact I]. apply ok_suspend; [exact A1|]. intros y _ _. unfold legit_TP. cbn. apply stack_ok_app; assumption.
      + split; [|exact I]. apply ok_push_ready. apply ok_set_tstate; [exact A1|]. intros y _ _. unfold legit_TP. cbn. split; [apply stack_ok_app; assumption|apply sig_ok_go].
      + split; [exact A1|]. split; [apply stack_ok_app; assumption|apply Ds; reflexivity].
      + split; [exact A1|]. split; [exact Br|apply Ds; reflexivity].
    - pose proof (creach_base P Hsw Hhd Hbody _ _ H) as Hb. destruct (IH Hb) as [Ha|[A [_ Bs]]]; [exfalso; exact (ab_running _ _ _ _ Hb Ha)|right].
      split; [|exact I]. apply ok_set_tstate; [exact A|]. intros y _ _. exact Bs.
    - left. unfold tasks_ok, abort. cbn [st_tasks]. rewrite Forall_forall. intros y Hy. apply in_map_iff in Hy. destruct Hy as [x [<- _]]. reflexivity.
    - destruct (IH (creach_base P Hsw Hhd Hbody _ _ H)) as [Ha|[A _]]; [left|right].
      + apply (complete_gate_tasks_ok ab_TP); [|exact Ha]. intros x w k Hx Hp. unfold ab_TP in Hp. congruence.
      + split; [|exact I]. apply (complete_gate_tasks_ok legit_TP legit_wake). exact A.
    - destruct (IH (creach_base P Hsw Hhd Hbody _ _ H)) as [Ha|[A _]]; [left|right].
      + apply (ok_cancel_task ab_TP); [| |exact Ha]; intros x; intros; unfold ab_TP in *; congruence.
      + split; [|exact I]. apply (ok_cancel_task legit_TP legit_cancel_ready legit_cancel_wait). exact A.
  Qed.
End Errors.

(* ---- on schedule-reachable states ------------------------------------------------------------------------------------------------ *)
Theorem plain_errors_are_genuine P :
  plain_prog P -> forall st, reachable P st ->
    (* what run reports as PipelineResult.error was raised by a node body of this program (at the attempt it names), by an event
       manager or by the artifact store, or is the pool-not-ready error; and it is an Exception *)
    (forall e, main_state st = Some (TDone (SResErr e)) -> raised P e /\ is_Exception e = true) /\
    (* what run raises is such an exception, or the caller's CancelledError (or the model-only out-of-fuel artefact of the interpreter,
       which the certificates exclude on the catalogue and the driver reports on every compared run) *)
    (forall e, main_state st = Some (TDone (SThrow e)) ->
               e = XCancelled \/ raised P e \/ e = XEng EOutOfFuel (b_input (build (p_decls P) (p_inp P) (p_out P)))).
Proof.
  intros (Hg & Hb & _) st Hr. destruct (graph_plain_sound _ Hg) as [Hsw Hhd].
  pose proof (reachable_creach P st Hr) as Hc.
  destruct (reachable_find_main P st Hr) as [x [Hf [_ Hid]]]. destruct (find_task_in _ _ _ Hf) as [Hin _].
  unfold main_state. rewrite Hf. cbn.
  destruct (creach_legit P Hsw Hhd Hb st None Hc) as [Ha|[A _]].
  - unfold tasks_ok in Ha. rewrite Forall_forall in Ha. specialize (Ha x Hin). unfold ab_TP in Ha. rewrite Ha.
    split; intros e He; inversion He; auto.
  - unfold tasks_ok in A. rewrite Forall_forall in A. specialize (A x Hin). unfold legit_TP in A.
    split; intros e He; inversion He as [Es]; rewrite Es in A; destruct A as [A1 A2].
    + pose proof (A2 e eq_refl) as Hex. destruct (A1 e (or_introl eq_refl)) as [->|Hr']; [discriminate Hex|auto].
    + destruct (A1 e (or_introl eq_refl)) as [->|Hr']; auto.
Qed.
