(* Plain programs, every schedule, while manager.run is pending: each node has at most one task; that task executes the node
   itself (the "executed elsewhere" path is never taken), stores a result before it is saved, sets the node's event exactly when
   it finishes, and an event without a result means the task failed. *)
From MLPE Require Import Engine.Run Proofs.ExecLemmas Proofs.Evolve Proofs.StackInv Proofs.ReadyInv Proofs.WaitInv Explore.StateEq
     Proofs.ProcessedInv Proofs.PlainWorld Proofs.PlainLaunch Proofs.PlainLive Proofs.Micro Proofs.PlainBase Proofs.PlainCore Proofs.PlainInv
     Proofs.PlainRoles.

Definition is_start_frame (f : frame) : bool := match f with FNodeStart _ _ _ | FExecStart _ _ _ => true | _ => false end.
Definition is_dup_frame (f : frame) : bool := match f with FExecDup _ => true | _ => false end.
Definition is_after_save (f : frame) : bool := match f with FNodeAfterSave _ _ _ => true | _ => false end.
Definition is_knode (f : frame) : bool := match f with FNodeStart _ _ _ | FNodeAfterExec _ _ | FNodeAfterSave _ _ _ => true | _ => false end.
Definition head_ok (k : list frame) : bool := match k with f :: _ => negb (is_start_frame f) | [] => true end.
Definition last_knode (k : list frame) : bool := match k with [] => true | f :: r => is_knode (last r f) end.
Definition sig_of (ts : tstate frame) : option signal := match ts with TReady _ s => Some s | _ => None end.

(* a node frame whose class is KNode is the bottom of its stack *)
Lemma knode_bottom n fr rest :
  is_knode fr = true -> forallb (node_frame n) rest = true -> chainb (fr :: rest) = true -> rest = [].
Proof.
  intros Hk Ho Hc. destruct rest as [|g r]; [reflexivity|]. exfalso. cbn [chainb] in Hc. apply andb_true_iff in Hc. destruct Hc as [Hc _].
  cbn [forallb] in Ho. apply andb_true_iff in Ho. destruct Ho as [Hg _].
  destruct fr; try discriminate Hk; destruct g; try discriminate Hg; try discriminate Hc;
    cbn in Hg; repeat match goal with e : evkind |- _ => destruct e end; repeat match goal with o : option key |- _ => destruct o end; try discriminate Hg; discriminate Hc.
Qed.

Lemma last_app_ne {A} (a b : list A) (d : A) : b <> [] -> last (a ++ b) d = last b d.
Proof.
  intros Hb. induction a as [|x a IH]; [reflexivity|]. cbn [app].
  assert (Hne : a ++ b <> []) by (destruct a; [exact Hb|discriminate]).
  destruct (a ++ b) as [|y l] eqn:E; [contradiction|]. change (last (x :: y :: l) d) with (last (y :: l) d). exact IH.
Qed.

(* ---- signal typing: the interpreter's catch-all case is never reached on a plain program ---------------------------------- *)
Definition handled (fr : frame) (sg : signal) : bool :=
  match fr, sg with
  | _, SThrow _ => true
  | (FChartStart | FRunWait | FDagStart _ | FDagLoop _ _ _ | FDagFinal _ | FNodeStart _ _ _ | FExecStart _ _ _ | FExecDup _
     | FRetry _ _ _ _ | FRetryAfterBody _ _ _ | FRetryAfterSleep _ _ _ | FEmit _ _ _ _ _ _ | FSave _ _ _ _), SGo => true
  | (FChartAfterStart | FChartAfterRun | FChartAfterEmitOk _ | FChartAfterEmitErr _ | FNodeAfterExec _ _ | FNodeAfterSave _ _ _
     | FExecAfterStart _ _ _ | FExecAfterBody _ _ | FExecAfterOk _ _ _ | FExecAfterErr _ _ | FRetryAfterEmit _ _ _), SVal _ => true
  | FNodeAfterExec _ _, SElsewhere => true
  | _, _ => false
  end.

Definition typed_stack (k : list frame) (sg : signal) : bool := match k with f :: _ => handled f sg | [] => true end.
Definition typed_TP (x : task frame) : Prop :=
  match t_state x with
  | TReady k sg => typed_stack k sg = true
  | TWait _ k => typed_stack k SGo = true
  | TDone _ => True
  end.
Definition typed_dir (fr : frame) (rest : list frame) (d : directive) : Prop :=
  match d with
  | DSuspend _ k' | DYield k' => typed_stack (k' ++ rest) SGo = true
  | DCont k' s' => typed_stack (k' ++ rest) s' = true
  | DRet s' => typed_stack rest s' = true
  end.

Lemma handled_throw f e : handled f (SThrow e) = true.
Proof. destruct f; reflexivity. Qed.
Lemma typed_throw k e : typed_stack k (SThrow e) = true.
Proof. destruct k; [reflexivity|apply handled_throw]. Qed.

Section Typed.
  Variable P : prog.
  Notation G := (b_graph (build (p_decls P) (p_inp P) (p_out P))).
  Hypothesis Hsw : forall n, is_switch G n = false.
  Hypothesis Hhd : forall n, is_head G n = false.
  Hypothesis Hbody : forall i kw a v, p_body P i kw a = OVal v -> clean v = true.

  Ltac plain_prep4 :=
    repeat match goal with
           | H : (_ && _)%bool = true |- _ => apply andb_true_iff in H; destruct H
           | H : is_main P ?d = true |- _ => apply is_main_eq in H; subst d
           | H : negb ?f = true |- _ => apply negb_true_iff in H; subst f
           | H : ?u = true |- _ => is_var u; subst u
           end.

  Lemma plain_step_typed t fr rest sg st :
    plain_frame P fr = true -> clean_sig sg -> PS st -> handled fr sg = true -> chainb (fr :: rest) = true -> plain_stack P rest = true ->
    typed_dir fr rest (snd (step_frame P t fr sg st)).
  Proof.
    intros Hf Hs Hst Hh Hc Hpr. pose proof Hst as Hst'. unfold PS in Hst'.
    assert (Hret : forall s', (forall g, plain_frame P g = true -> awaits_b g (cls_of fr) = true -> handled g s' = true) -> typed_stack rest s' = true).
    { intros s' H. destruct rest as [|g r]; [reflexivity|]. cbn [typed_stack]. cbn [plain_stack forallb] in Hpr. apply andb_true_iff in Hpr.
      apply H; [apply Hpr|]. cbn [chainb] in Hc. apply andb_true_iff in Hc. apply Hc. }
    revert Hret.
    destruct fr; try discriminate Hf; cbn [plain_frame] in Hf; plain_prep4;
      destruct sg; cbn [clean_sig] in Hs; try discriminate Hh;
      try match goal with H : clean ?v = true |- _ => pose proof (clean_not_rec v H) as Hnr; pose proof (clean_not_exn v H) as Hne end;
      cbn [step_frame]; rewrite ?Hnr, ?Hne, ?Hsw, ?Hhd, ?(plain_dep_error P _ _ _ Hst'), ?(plain_no_subgraph_error _ _ Hst');
      unfold default_or_raise, reduced; cbn [d_oneof d_rec maind andb];
      repeat break_match; cbn [snd typed_dir app typed_stack emit_frames handled cls_of]; intros Hret; try reflexivity;
      try apply typed_throw;
      try (apply Hret; intros g Hpg Hg; destruct g; try discriminate Hg; try discriminate Hpg; reflexivity).
  Qed.
End Typed.

Section TypedInv.
  Variable P : prog.
  Notation G := (b_graph (build (p_decls P) (p_inp P) (p_out P))).
  Hypothesis Hsw : forall n, is_switch G n = false.
  Hypothesis Hhd : forall n, is_head G n = false.
  Hypothesis Hbody : forall i kw a v, p_body P i kw a = OVal v -> clean v = true.

  Definition typed_cur (c : running) : Prop := match c with Some (_, k, sg) => typed_stack k sg = true | None => True end.

  Lemma typed_wake x w k : t_state x = TWait w k -> typed_TP x -> typed_TP (with_ts x (TReady k SGo)).
  Proof. unfold typed_TP. intros E H. rewrite E in H. exact H. Qed.
  Lemma typed_cancel_ready x k sg : t_state x = TReady k sg -> typed_TP x -> typed_TP (with_ts x (TReady k (SThrow XCancelled))).
  Proof. unfold typed_TP. intros E H. cbn. apply typed_throw. Qed.
  Lemma typed_cancel_wait x w k : t_state x = TWait w k -> typed_TP x -> typed_TP (with_ts x (TReady k (SThrow XCancelled))).
  Proof. unfold typed_TP. intros E H. cbn. apply typed_throw. Qed.

  Theorem creach_typed : forall st c, creach P st c -> tasks_ok typed_TP st /\ typed_cur c.
  Proof.
    intros st c H. pose proof (creach_base P Hsw Hhd Hbody st c H) as Hb0.
    induction H as [|st t rest x k sg H IH Hq Hf Ht|st t rest H IH Hq|st t fr rest sg H IH|st t sg H IH|st c H IH|st g H IH|st H IH].
    - split; [|exact I]. unfold tasks_ok, init_state. cbn. constructor; [reflexivity|constructor].
    - destruct (IH (creach_base P Hsw Hhd Hbody _ _ H)) as [A _]. split; [apply ok_dequeue; exact A|].
      destruct (find_task_in _ _ _ Hf) as [Hin _]. unfold tasks_ok in A. rewrite Forall_forall in A. specialize (A x Hin). unfold typed_TP in A. rewrite Ht in A. exact A.
    - destruct (IH (creach_base P Hsw Hhd Hbody _ _ H)) as [A _]. split; [apply ok_dequeue; exact A|exact I].
    - pose proof (creach_base P Hsw Hhd Hbody _ _ H) as Hb. destruct (IH Hb) as [A B]. cbn [typed_cur typed_stack] in B.
      destruct (b_cur _ _ _ Hb) as [x0 [Hf0 [Hk [Hs [Ho [Hc _]]]]]]. cbn [plain_stack forallb] in Hk. apply andb_true_iff in Hk. destruct Hk as [Kf Kr].
      pose proof (plain_step_typed P t fr rest sg st Kf Hs (b_ps _ _ _ Hb) B Hc Kr) as Hd.
      assert (A1 : tasks_ok typed_TP (fst (step_frame P t fr sg st))).
      { apply (plain_step_tasks_gen P Hsw Hhd typed_TP typed_wake typed_cancel_ready typed_cancel_wait); try assumption; [| |exact (b_ps _ _ _ Hb)]; intros; reflexivity. }
      destruct (step_frame P t fr sg st) as [st1 [w k'|k'|k' sg'|sg']]; cbn [after_step fst snd typed_dir typed_cur] in *.
      + split; [|exact I]. apply ok_suspend; [exact A1|]. intros y _ _. exact Hd.
      + split; [|exact I]. apply ok_push_ready. apply ok_set_tstate; [exact A1|]. intros y _ _. exact Hd.
      + split; assumption.
      + split; assumption.
    - destruct (IH (creach_base P Hsw Hhd Hbody _ _ H)) as [A _]. split; [|exact I]. apply ok_set_tstate; [exact A|]. intros y _ _. exact I.
    - destruct (IH (creach_base P Hsw Hhd Hbody _ _ H)) as [A _]. split; [|exact I]. apply ok_abort; [|exact A]. intros y k0 _. exact I.
    - destruct (IH (creach_base P Hsw Hhd Hbody _ _ H)) as [A _]. split; [|exact I]. apply (complete_gate_tasks_ok typed_TP typed_wake). exact A.
    - destruct (IH (creach_base P Hsw Hhd Hbody _ _ H)) as [A _]. split; [|exact I]. apply (ok_cancel_task typed_TP typed_cancel_ready typed_cancel_wait). exact A.
  Qed.
End TypedInv.

(* ---- storage facts on plain stores ------------------------------------------------------------------------------------------ *)
From MLPE Require Import Proofs.AssocLemmas.

Lemma result_set m n v s : s_res_hidden s = [] -> exists_result m (set_result n v s) = key_eqb m n || exists_result m s.
Proof.
  intros Hh. unfold exists_result, get_result_opt, set_result. cbn. rewrite Hh. cbn.
  destruct (key_eqb m n) eqn:E.
  - apply key_eqb_spec in E. subst. rewrite (alookup_aset_same key_eqb key_eqb_spec). reflexivity.
  - rewrite (alookup_aset_other key_eqb key_eqb_spec); [reflexivity|]. intros ->. rewrite key_eqb_refl in E. discriminate.
Qed.

Lemma result_set_processed m n s : exists_result m (set_processed n s) = exists_result m s.
Proof. reflexivity. Qed.
Lemma processed_set_result m n v s : exists_processed m (set_result n v s) = exists_processed m s.
Proof. reflexivity. Qed.

(* two tasks for one node contradict the uniqueness of node names *)
Lemma node_names_unique (l : list (task frame)) x y m :
  NoDup (flat_map (fun nm => match nm with TNNode k => [k] | _ => [] end) (map (@t_name frame) l)) ->
  In x l -> In y l -> t_id x <> t_id y -> t_name x = TNNode m -> t_name y = TNNode m -> False.
Proof.
  intros Hnd Hx Hy Hne Ex Ey.
  assert (One : forall (r : list (task frame)) z, In z r -> t_name z = TNNode m ->
                                                   In m (flat_map (fun nm => match nm with TNNode k => [k] | _ => [] end) (map (@t_name frame) r))).
  { intros r z Hz Ez. apply in_flat_map. exists (TNNode m). split; [rewrite <- Ez; apply in_map; exact Hz|left; reflexivity]. }
  induction l as [|z r IH]; [contradiction|]. cbn [map flat_map] in Hnd.
  destruct Hx as [Hx|Hx]; destruct Hy as [Hy|Hy].
  - subst. contradiction.
  - subst z. rewrite Ex in Hnd. cbn in Hnd. inversion Hnd; subst. apply H1. exact (One r y Hy Ey).
  - subst z. rewrite Ey in Hnd. cbn in Hnd. inversion Hnd; subst. apply H1. exact (One r x Hx Ex).
  - apply IH; try assumption. clear -Hnd. induction (match t_name z with TNNode k => [k] | _ => [] end) as [|a l' IH']; [exact Hnd|].
    cbn in Hnd. inversion Hnd; subst. apply IH'. assumption.
Qed.

Section NodeSteps.
  Variable P : prog.
  Notation G := (b_graph (build (p_decls P) (p_inp P) (p_out P))).
  Hypothesis Hsw : forall n, is_switch G n = false.
  Hypothesis Hhd : forall n, is_head G n = false.
  Hypothesis Hbody : forall i kw a v, p_body P i kw a = OVal v -> clean v = true.

  Ltac plain_prep5 :=
    repeat match goal with
           | H : (_ && _)%bool = true |- _ => apply andb_true_iff in H; destruct H
           | H : is_main P ?d = true |- _ => apply is_main_eq in H; subst d
           | H : negb ?f = true |- _ => apply negb_true_iff in H; subst f
           | H : ?u = true |- _ => is_var u; subst u
           end.
  Lemma plain_step_starts t fr sg st :
    plain_frame P fr = true -> clean_sig sg -> PS st ->
    forallb (fun f => negb (is_start_frame f)) (tl (dir_frames (snd (step_frame P t fr sg st)))) = true /\
    (head_ok (dir_frames (snd (step_frame P t fr sg st))) = false -> exists d0 n f, fr = FNodeStart d0 n f).
  Proof.
    intros Hf Hs Hst. pose proof Hst as Hst'. unfold PS in Hst'.
    destruct fr; try discriminate Hf; cbn [plain_frame] in Hf; plain_prep5;
      destruct sg; cbn [clean_sig] in Hs;
      try match goal with H : clean ?v = true |- _ => pose proof (clean_not_rec v H) as Hnr; pose proof (clean_not_exn v H) as Hne end;
      cbn [step_frame]; rewrite ?Hnr, ?Hne, ?Hsw, ?Hhd, ?(plain_dep_error P _ _ _ Hst'), ?(plain_no_subgraph_error _ _ Hst');
      unfold default_or_raise, reduced; cbn [d_oneof d_rec maind andb];
      repeat break_match; cbn [snd dir_frames tl forallb head_ok is_start_frame negb emit_frames andb];
      (split; [reflexivity|intros H; try discriminate H; eauto]).
  Qed.

  Lemma plain_step_dup t fr sg st :
    plain_frame P fr = true -> clean_sig sg -> PS st ->
    existsb is_dup_frame (dir_frames (snd (step_frame P t fr sg st))) = true \/ dir_sig (snd (step_frame P t fr sg st)) = Some SElsewhere ->
    (exists d0 n f, fr = FExecStart d0 n f /\ sg = SGo /\ exists_processed n (st_store st) = true) \/ (exists n, fr = FExecDup n).
  Proof.
    intros Hf Hs Hst. pose proof Hst as Hst'. unfold PS in Hst'.
    destruct fr; try discriminate Hf; cbn [plain_frame] in Hf; plain_prep5;
      destruct sg; cbn [clean_sig] in Hs;
      try match goal with H : clean ?v = true |- _ => pose proof (clean_not_rec v H) as Hnr; pose proof (clean_not_exn v H) as Hne end;
      cbn [step_frame]; rewrite ?Hnr, ?Hne, ?Hsw, ?Hhd, ?(plain_dep_error P _ _ _ Hst'), ?(plain_no_subgraph_error _ _ Hst');
      unfold default_or_raise, reduced; cbn [d_oneof d_rec maind andb];
      repeat break_match; cbn [snd dir_frames dir_sig existsb is_dup_frame emit_frames orb];
      intros [H|H]; try discriminate H; eauto 10.
  Qed.

  Lemma plain_step_after_save t fr sg st :
    plain_frame P fr = true -> clean_sig sg -> PS st ->
    existsb is_after_save (dir_frames (snd (step_frame P t fr sg st))) = true -> exists d0 n res, fr = FNodeAfterExec d0 n /\ sg = SVal res.
  Proof.
    intros Hf Hs Hst. pose proof Hst as Hst'. unfold PS in Hst'.
    destruct fr; try discriminate Hf; cbn [plain_frame] in Hf; plain_prep5;
      destruct sg; cbn [clean_sig] in Hs;
      try match goal with H : clean ?v = true |- _ => pose proof (clean_not_rec v H) as Hnr; pose proof (clean_not_exn v H) as Hne end;
      cbn [step_frame]; rewrite ?Hnr, ?Hne, ?Hsw, ?Hhd, ?(plain_dep_error P _ _ _ Hst'), ?(plain_no_subgraph_error _ _ Hst');
      unfold default_or_raise, reduced; cbn [d_oneof d_rec maind andb];
      repeat break_match; cbn [snd dir_frames existsb is_after_save emit_frames orb]; intros H; try discriminate H; eauto.
  Qed.

  (* the bottom frame of a node task returns only through its `finally` *)
  Lemma plain_step_knode_ret t fr sg st s' :
    plain_frame P fr = true -> clean_sig sg -> PS st -> is_knode fr = true -> handled fr sg = true ->
    snd (step_frame P t fr sg st) = DRet s' -> sg <> SElsewhere -> (forall d0 n f, fr = FNodeStart d0 n f -> sg = SGo) ->
    exists n, step_event fr sg = Some n /\ ((exists e, s' = SThrow e) \/ is_after_save fr = true).
  Proof.
    intros Hf Hs Hst Hk Hh. pose proof Hst as Hst'. unfold PS in Hst'.
    destruct fr; try discriminate Hf; cbn [plain_frame] in Hf; plain_prep5;
      destruct sg; cbn [clean_sig] in Hs;
      try match goal with H : clean ?v = true |- _ => pose proof (clean_not_rec v H) as Hnr; pose proof (clean_not_exn v H) as Hne end;
      cbn [step_frame]; rewrite ?Hnr, ?Hne, ?Hsw, ?Hhd, ?(plain_dep_error P _ _ _ Hst'), ?(plain_no_subgraph_error _ _ Hst');
      unfold default_or_raise, reduced; cbn [d_oneof d_rec maind andb];
      repeat break_match; try discriminate Hk; try discriminate Hh; cbn [snd step_event is_after_save];
      intros H Hnels Hst0; try discriminate H; inversion H; subst; eauto;
      try (exfalso; apply Hnels; reflexivity); try (specialize (Hst0 _ _ _ eq_refl); discriminate Hst0).
  Qed.

  (* an event is set only by a step that returns *)
  Lemma plain_step_event_ret t fr sg st n :
    plain_frame P fr = true -> clean_sig sg -> PS st -> step_event fr sg = Some n ->
    exists s', snd (step_frame P t fr sg st) = DRet s'.
  Proof.
    intros Hf Hs Hst. pose proof Hst as Hst'. unfold PS in Hst'.
    destruct fr; try discriminate Hf; cbn [plain_frame] in Hf; plain_prep5;
      destruct sg; cbn [clean_sig] in Hs;
      try match goal with H : clean ?v = true |- _ => pose proof (clean_not_rec v H) as Hnr; pose proof (clean_not_exn v H) as Hne end;
      cbn [step_frame]; rewrite ?Hnr, ?Hne, ?Hsw, ?Hhd, ?(plain_dep_error P _ _ _ Hst'), ?(plain_no_subgraph_error _ _ Hst');
      unfold default_or_raise, reduced; cbn [d_oneof d_rec maind andb];
      repeat break_match; cbn [snd step_event]; intros H; try discriminate H; eauto.
  Qed.
End NodeSteps.

Lemma nostart_head k : forallb (fun f => negb (is_start_frame f)) k = true -> head_ok k = true.
Proof. destruct k as [|f r]; [reflexivity|]. cbn. intros H. apply andb_true_iff in H. apply H. Qed.

Lemma sig_of_nstate rest d s : sig_of (nstate rest d) = Some s -> dir_sig d = Some s \/ s = SGo.
Proof.
  destruct d as [w k'|k'|k' sg'|sg']; cbn [nstate sig_of dir_sig].
  - discriminate.
  - intros H. inversion H. auto.
  - destruct (k' ++ rest); cbn; [discriminate|]. intros H. inversion H. auto.
  - destruct rest; cbn; [discriminate|]. intros H. inversion H. auto.
Qed.

Lemma nstate_done rest fr d r : dir_ok fr d -> nstate rest d = TDone r -> d = DRet r /\ rest = [].
Proof.
  destruct d as [w k'|k'|k' sg'|sg']; cbn [nstate dir_ok]; try discriminate.
  - intros [Hne _]. destruct k'; [contradiction|]. cbn. discriminate.
  - intros _. destruct rest; [|discriminate]. intros H. inversion H. auto.
Qed.

Lemma NoDup_app_l {A} (a b : list A) : NoDup (a ++ b) -> NoDup a.
Proof.
  induction a as [|x a IH]; intros H; [constructor|]. cbn in H. inversion H; subst. constructor.
  - intros Hin. apply H2. apply in_or_app. left. exact Hin.
  - apply IH. assumption.
Qed.

Section StepMono.
  Variable P : prog.

  Lemma step_store_res_mono fr sg (st : mstate) m :
    s_res_hidden (st_store st) = [] -> exists_result m (st_store st) = true -> exists_result m (step_store fr sg st) = true.
  Proof.
    intros Hh H. unfold step_store. destruct fr; try exact H; destruct sg; try exact H.
    - rewrite (result_set _ _ _ _ Hh), H. apply orb_true_r.
    - destruct (exists_processed n (st_store st)); exact H.
  Qed.

  Definition frame_key (fr : frame) : option key :=
    match fr with FNodeAfterExec _ n | FNodeAfterSave _ n _ | FExecStart _ n _ | FNodeStart _ n _ => Some n | _ => None end.
  Lemma owner_frame_key nm fr n : owner nm fr = true -> frame_key fr = Some n -> nm = TNNode n.
  Proof.
    destruct fr; cbn [frame_key]; intros Ho H; try discriminate H; inversion H; subst;
      destruct nm; try discriminate Ho; cbn in Ho; apply key_eqb_spec in Ho; subst; reflexivity.
  Qed.

  (* what a frame of another coroutine family does not touch *)
  Lemma step_untouched nm fr sg (st : mstate) m :
    owner nm fr = true -> nm <> TNNode m -> s_res_hidden (st_store st) = [] ->
    exists_processed m (step_store fr sg st) = exists_processed m (st_store st) /\
    exists_result m (step_store fr sg st) = exists_result m (st_store st) /\
    (forall n, step_event fr sg = Some n -> key_eqb m n = false).
  Proof.
    intros Ho Hne Hh.
    assert (K : forall n, frame_key fr = Some n -> key_eqb m n = false).
    { intros n Hn. destruct (key_eqb m n) eqn:E; [|reflexivity]. apply key_eqb_spec in E. subst n. exfalso. apply Hne.
      exact (owner_frame_key _ _ _ Ho Hn). }
    destruct fr; destruct sg; cbn [step_store step_event];
      try match goal with |- context [if ?u then _ else _] => destruct u eqn:? end;
      repeat split; try reflexivity;
      try (intros n0 Hn0; first [discriminate Hn0 | inversion Hn0; subst; apply K; reflexivity]);
      try (rewrite processed_set, (K _ eq_refl); reflexivity);
      try (rewrite (result_set _ _ _ _ Hh), (K _ eq_refl); reflexivity).
  Qed.
End StepMono.

(* ---- the invariant ---------------------------------------------------------------------------------------------------------- *)
Definition PhiN (st : mstate) (m : key) (ts : tstate frame) : Prop :=
  (exists_processed m (st_store st) = true -> head_ok (estack ts) = true) /\
  forallb (fun f => negb (is_start_frame f)) (tl (estack ts)) = true /\
  existsb is_dup_frame (estack ts) = false /\
  sig_of ts <> Some SElsewhere /\
  (existsb is_after_save (estack ts) = true -> exists_result m (st_store st) = true) /\
  last_knode (estack ts) = true /\
  ((exists r, ts = TDone r) <-> event_is_set m st = true) /\
  (event_is_set m st = true -> exists_result m (st_store st) = true \/ exists e, ts = TDone (SThrow e)) /\
  (forall f r s, ts = TReady (f :: r) s -> is_start_frame f = true -> s = SGo) /\
  (head_ok (estack ts) = true -> exists_processed m (st_store st) = true).

Definition PhiE (st : mstate) (i : idt) (ts : tstate frame) : Prop :=
  (fst (fst i) = main_tid -> snd (fst i) = TNMain) /\ (forall m, snd (fst i) = TNNode m -> PhiN st m ts).

Lemma PhiN_ext st st' m ts : st_store st' = st_store st -> st_events st' = st_events st -> PhiN st m ts -> PhiN st' m ts.
Proof. unfold PhiN, event_is_set. intros -> ->. auto. Qed.
Lemma PhiE_ext st st' i ts : st_store st' = st_store st -> st_events st' = st_events st -> PhiE st i ts -> PhiE st' i ts.
Proof. intros A B [H1 H2]. split; [exact H1|]. intros m Hm. apply (PhiN_ext st); auto. Qed.

Lemma PhiE_wake st : wake_closed (PhiE st).
Proof.
  intros i w k [H0 H]. split; [exact H0|]. intros m Hm. destruct (H m Hm) as (A & B & C & D & E & F & G0 & H1 & I0 & J0).
  unfold PhiN. cbn [estack sig_of] in *. repeat split; auto.
  - discriminate.
  - intros [r Hr]. discriminate Hr.
  - intros He. apply G0 in He. destruct He as [r Hr]. discriminate Hr.
  - intros He. destruct (H1 He) as [Hr|[e He']]; [left; exact Hr|discriminate He'].
  - intros f r s Hs _. inversion Hs. reflexivity.
Qed.

Lemma last_cons_default {A} (f : A) k d : last (f :: k) d = last k f.
Proof. revert f d. induction k as [|g k IH]; intros f d; [reflexivity|]. change (last (f :: g :: k) d) with (last (g :: k) d). rewrite (IH g d), (IH g f). reflexivity. Qed.
Lemma is_knode_cls f : is_knode f = true <-> cls_of f = KNode.
Proof. destruct f; cbn; split; intros H; try reflexivity; discriminate H. Qed.

Lemma step_event_key fr sg n : step_event fr sg = Some n -> frame_key fr = Some n.
Proof. destruct fr; destruct sg; cbn; try discriminate; try (destruct unlock; try discriminate); intros H; inversion H; reflexivity. Qed.

Section ExecInv.
  Variable P : prog.
  Notation G := (b_graph (build (p_decls P) (p_inp P) (p_out P))).
  Hypothesis Hsw : forall n, is_switch G n = false.
  Hypothesis Hhd : forall n, is_head G n = false.
  Hypothesis Hbody : forall i kw a v, p_body P i kw a = OVal v -> clean v = true.
  Notation order := (p_order P (maind P)).
  Hypothesis Hnd : NoDup order.

  Lemma event_add m n (st : mstate) : mem key_eqb m (add_set key_eqb n (st_events st)) = key_eqb m n || event_is_set m st.
  Proof. apply mem_add_set_eq. Qed.

  Lemma PhiN_running st t fr rest sg m x0 :
    base P st (Some (t, fr :: rest, sg)) -> handled fr sg = true ->
    find_task t (st_tasks st) = Some x0 -> t_name x0 = TNNode m ->
    PhiN st m (TReady (fr :: rest) sg) ->
    PhiN (fst (step_frame P t fr sg st)) m (nstate rest (snd (step_frame P t fr sg st))).
  Proof.
    intros Hb Hh Hf0 Hnm (O1 & O1' & O2 & O2' & O3 & O9 & O4 & O7 & O10 & O11).
    destruct (b_cur _ _ _ Hb) as [x0' [Hf0' [Hk [Hs [Ho [Hc _]]]]]]. rewrite Hf0 in Hf0'. inversion Hf0'; subst x0'. clear Hf0'.
    rewrite Hnm in Ho. cbn [plain_stack forallb] in Hk, Ho. apply andb_true_iff in Hk. destruct Hk as [Kf Kr]. apply andb_true_iff in Ho. destruct Ho as [Of Or].
    pose proof (b_ps _ _ _ Hb) as Hps. pose proof Hps as Hps'. unfold PS in Hps'. destruct Hps' as [_ [Hrh _]].
    destruct (plain_step_summary P t fr sg st Kf Hs Hps) as (Hst & Hev & _).
    destruct (plain_step_starts P t fr sg st Kf Hs Hps) as [St1 St2].
    pose proof (plain_step_dup P t fr sg st Kf Hs Hps) as Hdup.
    pose proof (plain_step_after_save P t fr sg st Kf Hs Hps) as Has.
    pose proof (step_frame_dir_ok P t fr sg st) as Hdo.
    pose proof (plain_step_knode_ret P t fr sg st) as Hkr.
    pose proof (plain_step_event_ret P t fr sg st) as Her.
    cbn [estack tl sig_of] in O1, O1', O2, O2', O3, O9.
    cbn [existsb] in O2, O3. apply orb_false_iff in O2. destruct O2 as [O2a O2b].
    assert (Hnev : event_is_set m st = false).
    { destruct (event_is_set m st) eqn:E; [|reflexivity]. destruct (proj2 O4 eq_refl) as [r Hr]. discriminate Hr. }
    assert (Hkey : forall n, frame_key fr = Some n -> n = m).
    { intros n Hn. pose proof (owner_frame_key _ _ _ Of Hn) as E. inversion E. reflexivity. }
    (* when the node's event is set by this step *)
    assert (Hset : event_is_set m (fst (step_frame P t fr sg st)) = true ->
                   exists s', snd (step_frame P t fr sg st) = DRet s' /\ rest = [] /\ step_event fr sg = Some m /\ is_knode fr = true).
    { unfold event_is_set. rewrite Hev. destruct (step_event fr sg) as [n|] eqn:Ese; [|fold (event_is_set m st); rewrite Hnev; discriminate].
      rewrite event_add, Hnev, orb_false_r. intros E. apply key_eqb_spec in E. subst n.
      destruct (Her m Kf Hs Hps eq_refl) as [s' Hd]. exists s'.
      assert (Hkn : is_knode fr = true) by (destruct fr; try discriminate Ese; reflexivity).
      repeat split; try assumption. exact (knode_bottom m fr rest Hkn Or Hc). }
    set (d := snd (step_frame P t fr sg st)) in *.
    unfold PhiN. rewrite estack_nstate.
    repeat split.
    - (* E1 *)
      intros Hp. destruct (dir_frames d) as [|f k''] eqn:Ed.
      + cbn [app]. apply nostart_head. exact O1'.
      + cbn [app head_ok]. destruct (is_start_frame f) eqn:Ef; [|reflexivity]. exfalso.
        destruct St2 as [d0 [n [f0 Efr]]]; [cbn [head_ok]; rewrite Ef; reflexivity|]. subst fr.
        rewrite Hst in Hp. cbn [step_store] in Hp. specialize (O1 Hp). cbn in O1. discriminate O1.
    - (* E1' *)
      destruct (dir_frames d) as [|f k''] eqn:Ed.
      + cbn [app]. destruct rest as [|g r]; [reflexivity|]. cbn [tl]. cbn [forallb] in O1'. apply andb_true_iff in O1'. apply O1'.
      + cbn [app tl]. cbn [tl] in St1. rewrite forallb_app, St1, O1'. reflexivity.
    - (* E2: no duplicate-request frame *)
      rewrite existsb_app, O2b, orb_false_r. destruct (existsb is_dup_frame (dir_frames d)) eqn:E; [|reflexivity]. exfalso.
      destruct (Hdup (or_introl eq_refl)) as [[d0 [n [f [-> [-> Hp]]]]]|[n ->]]; [|discriminate O2a].
      rewrite (Hkey n eq_refl) in Hp. specialize (O1 Hp). discriminate O1.
    - (* E2': never "executed elsewhere" *)
      intros Hse. destruct (sig_of_nstate _ _ _ Hse) as [Hd|Hd]; [|discriminate Hd].
      destruct (Hdup (or_intror Hd)) as [[d0 [n [f [-> [-> Hp]]]]]|[n ->]]; [|discriminate O2a].
      rewrite (Hkey n eq_refl) in Hp. specialize (O1 Hp). discriminate O1.
    - (* E3 *)
      rewrite existsb_app. intros H. rewrite Hst. apply orb_true_iff in H. destruct H as [H|H].
      + destruct (Has H) as [d0 [n [res [-> ->]]]]. cbn [step_store]. rewrite (result_set _ _ _ _ Hrh), (Hkey n eq_refl), key_eqb_refl. reflexivity.
      + apply step_store_res_mono; [exact Hrh|]. apply O3. rewrite H. apply orb_true_r.
    - (* E9 *)
      assert (Hcase : forall k', seg_ok fr k' -> last_knode (k' ++ rest) = true).
      { intros k' [Hne [_ [Hl _]]]. destruct k' as [|f k'']; [contradiction|]. cbn [app last_knode].
        destruct rest as [|g r].
        - rewrite app_nil_r. rewrite last_cons_default in Hl. cbn [last_knode last] in O9.
          apply is_knode_cls. rewrite Hl. apply is_knode_cls. exact O9.
        - rewrite (last_app_ne k'' (g :: r) f); [|discriminate]. cbn [last_knode] in O9. rewrite last_cons_default in O9. rewrite last_cons_default. exact O9. }
      destruct d as [w k'|k'|k' sg'|sg']; cbn [dir_frames dir_ok] in *; try (apply Hcase; exact Hdo).
      cbn [app]. destruct rest as [|g r]; [reflexivity|]. cbn [last_knode] in *. rewrite last_cons_default in O9. exact O9.
    - (* E4 -> *)
      intros [r Hr]. destruct (nstate_done _ _ _ _ Hdo Hr) as [Hd ->]. cbn [last_knode last] in O9.
      destruct (Hkr r Kf Hs Hps O9 Hh Hd) as [n [Hse _]].
      + intros ->. apply O2'. reflexivity.
      + intros d0 n f ->. apply (O10 _ _ _ eq_refl). reflexivity.
      + unfold event_is_set. rewrite Hev, Hse, event_add.
        assert (n = m) by (apply Hkey; apply (step_event_key _ _ _ Hse)). subst n. rewrite key_eqb_refl. reflexivity.
    - (* E8 <- *)
      intros He. destruct (Hset He) as [s' [Hd [-> _]]]. exists s'. rewrite Hd. reflexivity.
    - (* E7 *)
      intros He. destruct (Hset He) as [s' [Hd [-> [Hse Hkn]]]].
      destruct (Hkr s' Kf Hs Hps Hkn Hh Hd) as [n [_ [[e ->]|Has']]].
      + intros ->. apply O2'. reflexivity.
      + intros d0 n f ->. apply (O10 _ _ _ eq_refl). reflexivity.
      + right. exists e. rewrite Hd. reflexivity.
      + left. rewrite Hst. apply step_store_res_mono; [exact Hrh|]. apply O3. rewrite Has'. reflexivity.
    - (* E10 *)
      intros f r s Hn Hsf.
      assert (Hstk : dir_frames d ++ rest = f :: r) by (rewrite <- estack_nstate, Hn; reflexivity).
      destruct (dir_frames d) as [|f' k''] eqn:Ed.
      + cbn [app] in Hstk. subst rest. cbn [forallb] in O1'. rewrite Hsf in O1'. discriminate O1'.
      + cbn [app] in Hstk. inversion Hstk; subst f'.
        destruct St2 as [d1 [n1 [f1 Efr]]]; [cbn [head_ok]; rewrite Hsf; reflexivity|]. subst fr.
        pose proof (O10 _ _ _ eq_refl eq_refl) as Esg. subst sg. unfold d in Hn. cbn [step_frame snd nstate app] in Hn. inversion Hn. reflexivity.
    - (* E1c: a node task that is past its first two frames has marked the node *)
      intros Hh'. rewrite Hst.
      destruct (is_start_frame fr) eqn:Efs.
      + (* the running frame is one of the two start frames: signal SGo *)
        pose proof (O10 _ _ _ eq_refl Efs) as Esg. subst sg.
        destruct fr; try discriminate Efs.
        * (* FNodeStart *) exfalso. unfold d in Hh'. cbn [step_frame snd dir_frames app head_ok is_start_frame negb] in Hh'. discriminate Hh'.
        * (* FExecStart *) cbn [step_store]. rewrite (Hkey n eq_refl).
          destruct (exists_processed m (st_store st)) eqn:Ep; [exact Ep|]. rewrite processed_set, key_eqb_refl. reflexivity.
      + assert (Hp : exists_processed m (st_store st) = true) by (apply O11; cbn [estack head_ok]; rewrite Efs; reflexivity).
        unfold step_store. destruct fr; try exact Hp; destruct sg; try exact Hp.
        destruct (exists_processed n (st_store st)); [exact Hp|]. rewrite processed_set, Hp. apply orb_true_r.
  Qed.

  Definition globE (st : mstate) : Prop := forall m, event_is_set m st = true -> In m (node_names st).
  Definition execI (st : mstate) (c : running) : Prop := guard st \/ (globE st /\ allT (PhiE st) st c).

  Lemma roles_nodup st c : globR st -> allT (PhiR P st) st c -> NoDup (node_names st).
  Proof.
    intros (_ & _ & G3) HA.
    assert (Hdec : In TNRun (names st) \/ ~ In TNRun (names st)).
    { destruct (existsb is_run_name (names st)) eqn:E.
      - left. apply existsb_exists in E. destruct E as [nm [Hin Hn]]. destruct nm; try discriminate Hn. exact Hin.
      - right. intros Hin. assert (existsb is_run_name (names st) = true) by (apply existsb_exists; exists TNRun; auto). congruence. }
    destruct Hdec as [Hin|Hno]; [|rewrite (G3 Hno); constructor].
    unfold names in Hin. apply in_map_iff in Hin. destruct Hin as [x [Hnm Hx]].
    destruct (allT_In _ _ _ x HA Hx) as (_ & _ & _ & D & _). cbn [ident fst snd] in D. destruct (D Hnm) as [r [_ Ho]].
    apply (NoDup_app_l _ r). rewrite <- Ho. exact Hnd.
  Qed.

  Lemma PhiN_same st st' m ts :
    exists_processed m (st_store st') = exists_processed m (st_store st) ->
    exists_result m (st_store st') = exists_result m (st_store st) ->
    event_is_set m st' = event_is_set m st -> PhiN st m ts -> PhiN st' m ts.
  Proof. unfold PhiN. intros -> -> ->. auto. Qed.

  Lemma events_after_step t rest r : st_events (fst (after_step t rest r)) = st_events (fst r).
  Proof. destruct r as [st1 [w k'|k'|k' sg'|sg']]; reflexivity. Qed.

  Lemma allT_extE st0 st1 st c : st_store st1 = st_store st0 -> st_events st1 = st_events st0 -> allT (PhiE st0) st c -> allT (PhiE st1) st c.
  Proof. intros A B. apply allT_impl. intros x _. apply PhiE_ext; assumption. Qed.
  Lemma globE_ext st st' : names st' = names st -> st_events st' = st_events st -> globE st -> globE st'.
  Proof. unfold globE, node_names, event_is_set. intros -> ->. auto. Qed.

  Lemma execA_step st t fr rest sg :
    base P st (Some (t, fr :: rest, sg)) -> handled fr sg = true ->
    globR st -> allT (PhiR P st) st (Some (t, fr :: rest, sg)) ->
    NoDup (node_names (fst (step_frame P t fr sg st))) ->
    globE st -> allT (PhiE st) st (Some (t, fr :: rest, sg)) ->
    leaves_run fr sg (snd (step_frame P t fr sg st)) = false ->
    globE (fst (step_frame P t fr sg st)) /\
    allT (PhiE (fst (step_frame P t fr sg st)))
         (fst (after_step t rest (step_frame P t fr sg st))) (snd (after_step t rest (step_frame P t fr sg st))).
  Proof.
    intros Hb Hh HG HA Hnd1 GE HE Hlr. destruct HG as (G1 & G2 & G3).
    destruct (b_cur _ _ _ Hb) as [x0 [Hf0 [Hk [Hs [Ho [Hc _]]]]]].
    cbn [plain_stack forallb] in Hk, Ho. apply andb_true_iff in Hk. destruct Hk as [Kf Kr]. apply andb_true_iff in Ho. destruct Ho as [Of Or].
    pose proof (b_ps _ _ _ Hb) as Hps. pose proof Hps as Hps'. unfold PS in Hps'. destruct Hps' as [_ [Hrh _]].
    pose proof (plain_step_names P Hsw Hhd t fr sg st Kf Hs Hps) as Hn.
    destruct (plain_step_summary P t fr sg st Kf Hs Hps) as (Hst & Hev & _).
    destruct (find_task_in _ _ _ Hf0) as [Hin0 Hid0].
    pose proof (allT_In _ _ _ x0 HA Hin0) as Hx0. unfold PhiR in Hx0. cbn [estate] in Hx0. rewrite Hid0, Nat.eqb_refl in Hx0.
    destruct Hx0 as (X1 & X2 & X3 & X4 & X5). cbn [ident fst snd] in X1, X2, X3, X4, X5.
    pose proof (allT_In _ _ _ x0 HE Hin0) as Hy0. unfold PhiE in Hy0. cbn [estate] in Hy0. rewrite Hid0, Nat.eqb_refl in Hy0.
    destruct Hy0 as [Y0 Y1]. cbn [ident fst snd] in Y0, Y1.
    pose proof (in_names _ _ Hin0) as Hnm0. pose proof (base_next _ _ _ Hb) as Hnx.
    split.
    - (* events only of nodes that have a task *)
      intros m Hm. unfold node_names. rewrite Hn, flat_map_app. apply in_or_app. left. fold (node_names st).
      unfold event_is_set in Hm. rewrite Hev in Hm. destruct (step_event fr sg) as [n|] eqn:Ese; [|apply GE; exact Hm].
      rewrite event_add in Hm. apply orb_true_iff in Hm. destruct Hm as [Hm|Hm]; [|apply GE; exact Hm].
      apply key_eqb_spec in Hm. subst n. apply node_names_in. rewrite <- (owner_frame_key _ _ _ Of (step_event_key _ _ _ Ese)). exact Hnm0.
    - apply (allT_step P Hsw Hhd (PhiE st)); try assumption.
      + apply PhiE_wake.
      + (* spawned tasks *)
        intros nm Hnm. unfold PhiE. cbn [fst snd].
        split; [unfold main_tid; intros; lia|]. intros m Em.
        destruct (creates_shape P fr sg st nm Hnm) as [[-> ->]|[d [n [r [l0 [-> [-> ->]]]]]]]; [discriminate Em|]. inversion Em; subst m. clear Em.
        assert (Hnot : ~ In n (node_names st)).
        { destruct (X4 (owner_dag_loop _ _ _ _ Of)) as [r0 [Hr0 Hor]].
          assert (r0 = n :: r) by (destruct rest; [cbn in Hr0; inversion Hr0; reflexivity|discriminate Hr0]). subst r0.
          intros Hin. pose proof Hnd as Hnd'. rewrite Hor in Hnd'. apply NoDup_remove_2 in Hnd'. apply Hnd'. apply in_or_app. left. exact Hin. }
        unfold PhiN, spawn_frame_of. cbn [estack tl forallb existsb is_dup_frame is_after_save sig_of last_knode last is_knode head_ok is_start_frame negb].
        repeat split; try reflexivity; try discriminate.
        * intros Hp. exfalso. apply Hnot. apply G1. exact Hp.
        * intros [r1 Hr1]. discriminate Hr1.
        * intros He. exfalso. apply Hnot. apply GE. exact He.
        * intros He. exfalso. apply Hnot. apply GE. exact He.
        * intros f1 r1 s1 Hs1 _. inversion Hs1. reflexivity.
      + (* the other tasks *)
        intros y ts Hy Hne [A B]. split; [exact A|]. intros m Em. specialize (B m Em).
        destruct (tname_seqb (t_name x0) (TNNode m)) eqn:Et.
        * (* a second task for the node this step belongs to: impossible *)
          exfalso. apply tname_seqb_sound in Et.
          pose proof (ev_step_frame P t fr sg st) as Hev'.
          destruct (evolves_find _ _ _ _ Hev' Hf0) as [x' [Hf' [Hnm' [_ Hid']]]]. destruct (find_task_in _ _ _ Hf') as [Hin' _].
          apply (node_names_unique _ y x' m Hnd1 Hy Hin'); [rewrite Hid', Hid0; exact Hne|exact Em|rewrite Hnm'; exact Et].
        * assert (Hnn : t_name x0 <> TNNode m) by (intros E; rewrite E in Et; clear -Et; destruct m; cbn in Et; rewrite ?Nat.eqb_refl in Et; discriminate Et).
          destruct (step_untouched (t_name x0) fr sg st m Of Hnn Hrh) as (U1 & U2 & U3).
          apply (PhiN_same st); [rewrite Hst; exact U1|rewrite Hst; exact U2| |exact B].
          unfold event_is_set. rewrite Hev. destruct (step_event fr sg) as [n|] eqn:Ese; [|reflexivity].
          rewrite event_add, (U3 n eq_refl). reflexivity.
      + (* the running task *)
        intros x Hx Hid. rewrite (run_ident P st t fr sg x0 x (b_ev _ _ _ Hb) Hf0 Hx Hid). unfold PhiE. cbn [ident fst snd].
        split; [exact Y0|]. intros m Em. apply (PhiN_running st t fr rest sg m x0); try assumption. apply Y1. exact Em.
  Qed.

  Lemma names_after_step' t rest r : names (fst (after_step t rest r)) = names (fst r).
  Proof. apply names_after_step. Qed.

  Theorem creach_exec : forall st c, creach P st c -> execI st c.
  Proof.
    intros st c H. pose proof (creach_base P Hsw Hhd Hbody st c H) as Hb0.
    induction H as [|st t rest x k sg H IH Hq Hf Ht|st t rest H IH Hq|st t fr rest sg H IH|st t sg H IH|st c H IH|st g H IH|st H IH].
    - right. split; [intros m Hm; discriminate Hm|].
      unfold allT, tasks_ok, init_state. cbn. constructor; [|constructor]. unfold TPc, PhiE. cbn. split; [reflexivity|]. intros m Hm. discriminate Hm.
    - pose proof (creach_base P Hsw Hhd Hbody _ _ H) as Hb. destruct (IH Hb) as [Hg|[GE HE]]; [left; exact Hg|right].
      split; [exact GE|]. apply (allT_extE st); [reflexivity|reflexivity|]. eapply (allT_start P); eassumption.
    - pose proof (creach_base P Hsw Hhd Hbody _ _ H) as Hb. destruct (IH Hb) as [Hg|[GE HE]]; [left; exact Hg|right]. split; [exact GE|exact HE].
    - pose proof (creach_base P Hsw Hhd Hbody _ _ H) as Hb.
      pose proof (cr_step P st t fr rest sg H) as Hcr'.
      destruct (creach_roles P Hsw Hhd Hbody Hnd _ _ Hcr') as [Hg'|[HG' HA']]; [left; exact Hg'|].
      destruct (creach_roles P Hsw Hhd Hbody Hnd _ _ H) as [Hg|[HG HA]]; [left; apply (guard_step P); assumption|].
      destruct (IH Hb) as [Hg|[GE HE]]; [left; apply (guard_step P); assumption|].
      destruct (b_cur _ _ _ Hb) as [x0 [Hf0 [Hk [Hs _]]]]. cbn [plain_stack forallb] in Hk. apply andb_true_iff in Hk. destruct Hk as [Kf _].
      destruct (leaves_run fr sg (snd (step_frame P t fr sg st))) eqn:Hlr.
      + left. left. rewrite over_after_step, (plain_step_over P t fr sg st Kf Hs (b_ps _ _ _ Hb)), Hlr. apply orb_true_r.
      + right. destruct (creach_typed P Hsw Hhd Hbody _ _ H) as [_ Hty]. cbn [typed_cur typed_stack] in Hty.
        pose proof (roles_nodup _ _ HG' HA') as Hnd1. unfold node_names in Hnd1. rewrite names_after_step in Hnd1. fold (node_names (fst (step_frame P t fr sg st))) in Hnd1.
        destruct (execA_step st t fr rest sg Hb Hty HG HA Hnd1 GE HE Hlr) as [GE1 HE1].
        split.
        * apply (globE_ext (fst (step_frame P t fr sg st))); [apply names_after_step|apply events_after_step|exact GE1].
        * apply (allT_extE (fst (step_frame P t fr sg st))); [apply store_after_step|apply events_after_step|exact HE1].
    - pose proof (creach_base P Hsw Hhd Hbody _ _ H) as Hb. destruct (IH Hb) as [Hg|[GE HE]]; [left; apply guard_done; [exact (b_ev _ _ _ Hb)|exact Hg]|right].
      split; [apply (globE_ext st); [exact (sn_set_tstate t _ st)|reflexivity|exact GE]|].
      apply (allT_extE st); [reflexivity|reflexivity|]. apply (allT_done P); assumption.
    - pose proof (creach_base P Hsw Hhd Hbody _ _ H) as Hb. left. apply guard_abort. exact (b_ev _ _ _ Hb).
    - pose proof (creach_base P Hsw Hhd Hbody _ _ H) as Hb. destruct (IH Hb) as [Hg|[GE HE]]; [left; apply (guard_gate P); [exact (b_ev _ _ _ Hb)|exact Hg]|right].
      unfold complete_gate.
      split; [apply (globE_ext st); [apply names_wake_all|apply events_wake_all|exact GE]|].
      apply (allT_extE st); [apply store_wake_all|apply events_wake_all|]. apply allT_gate; [apply PhiE_wake|exact HE].
    - pose proof (creach_base P Hsw Hhd Hbody _ _ H) as Hb. destruct (IH Hb) as [Hg|[GE HE]]; [left; apply (guard_cancel P); [exact (b_ev _ _ _ Hb)|exact Hg]|right].
      split; [apply (globE_ext st); [apply names_cancel_task|apply events_cancel_task|exact GE]|].
      apply (allT_extE st); [apply store_cancel_task|apply events_cancel_task|]. apply allT_cancel_main; [| |exact HE].
      + intros i k s Hi [A B]. split; [exact A|]. intros m Em. rewrite (A Hi) in Em. discriminate Em.
      + intros i w k Hi [A B]. split; [exact A|]. intros m Em. rewrite (A Hi) in Em. discriminate Em.
  Qed.
End ExecInv.
