(* Plain programs, every schedule, while manager.run is pending: each node has at most one task; that task executes the node
   itself (the "executed elsewhere" path is never taken), stores a result before it is saved, sets the node's event exactly when
   it finishes, and an event without a result means the task failed. *)
From MLPE Require Import Engine.Run Proofs.ExecLemmas Proofs.Evolve Proofs.StackInv Proofs.ReadyInv Proofs.WaitInv Explore.StateEq
     Proofs.ProcessedInv Proofs.PlainWorld Proofs.PlainLaunch Proofs.PlainLive Proofs.Micro Proofs.PlainBase Proofs.PlainCore Proofs.PlainInv
     Proofs.PlainRoles.

Definition is_start_frame (f : frame) : bool := match f with FNodeStart _ _ _ | FExecStart _ _ _ => true | _ => false end.
Definition is_dup_frame (f : frame) : bool := match f with FExecDup _ => true | _ => false end.
Definition is_after_save (f : frame) : bool := match f with FNodeAfterSave _ _ _ => true | _ => false end.
Definition is_knode (f : frame) : bool := match f with FNodeStart _ _ _ | FNodeAfterExec _ _ | FNodeAfterSave _ _ _ => true | _ => false end.
Definition head_ok (k : list frame) : bool := match k with f :: _ => negb (is_start_frame f) | [] => true end.
Definition last_knode (k : list frame) : bool := match k with [] => true | f :: r => is_knode (last r f) end.
Definition sig_of (ts : tstate frame) : option signal := match ts with TReady _ s => Some s | _ => None end.

(* a node frame whose class is KNode is the bottom of its stack *)
Lemma knode_bottom n fr rest :
  is_knode fr = true -> forallb (node_frame n) rest = true -> chainb (fr :: rest) = true -> rest = [].
Proof.
  intros Hk Ho Hc. destruct rest as [|g r]; [reflexivity|]. exfalso. cbn [chainb] in Hc. apply andb_true_iff in Hc. destruct Hc as [Hc _].
  cbn [forallb] in Ho. apply andb_true_iff in Ho. destruct Ho as [Hg _].
  destruct fr; try discriminate Hk; destruct g; try discriminate Hg; try discriminate Hc;
    cbn in Hg; repeat match goal with e : evkind |- _ => destruct e end; repeat match goal with o : option key |- _ => destruct o end; try discriminate Hg; discriminate Hc.
Qed.

Lemma last_app_ne {A} (a b : list A) (d : A) : b <> [] -> last (a ++ b) d = last b d.
Proof.
  intros Hb. induction a as [|x a IH]; [reflexivity|]. cbn [app].
  assert (Hne : a ++ b <> []) by (destruct a; [exact Hb|discriminate]).
  destruct (a ++ b) as [|y l] eqn:E; [contradiction|]. change (last (x :: y :: l) d) with (last (y :: l) d). exact IH.
Qed.

(* ---- signal typing: the interpreter's catch-all case is never reached on a plain program ---------------------------------- *)
Definition handled (fr : frame) (sg : signal) : bool :=
  match fr, sg with
  | _, SThrow _ => true
  | (FChartStart | FRunWait | FDagStart _ | FDagLoop _ _ _ | FDagFinal _ | FNodeStart _ _ _ | FExecStart _ _ _ | FExecDup _
     | FRetry _ _ _ _ | FRetryAfterBody _ _ _ | FRetryAfterSleep _ _ _ | FEmit _ _ _ _ _ _ | FSave _ _ _ _), SGo => true
  | (FChartAfterStart | FChartAfterRun | FChartAfterEmitOk _ | FChartAfterEmitErr _ | FNodeAfterExec _ _ | FNodeAfterSave _ _ _
     | FExecAfterStart _ _ _ | FExecAfterBody _ _ | FExecAfterOk _ _ _ | FExecAfterErr _ _ | FRetryAfterEmit _ _ _), SVal _ => true
  | FNodeAfterExec _ _, SElsewhere => true
  | _, _ => false
  end.

Definition typed_stack (k : list frame) (sg : signal) : bool := match k with f :: _ => handled f sg | [] => true end.
Definition typed_TP (x : task frame) : Prop :=
  match t_state x with
  | TReady k sg => typed_stack k sg = true
  | TWait _ k => typed_stack k SGo = true
  | TDone _ => True
  end.
Definition typed_dir (fr : frame) (rest : list frame) (d : directive) : Prop :=
  match d with
  | DSuspend _ k' | DYield k' => typed_stack (k' ++ rest) SGo = true
  | DCont k' s' => typed_stack (k' ++ rest) s' = true
  | DRet s' => typed_stack rest s' = true
  end.

Lemma handled_throw f e : handled f (SThrow e) = true.
Proof. destruct f; reflexivity. Qed.
Lemma typed_throw k e : typed_stack k (SThrow e) = true.
Proof. destruct k; [reflexivity|apply handled_throw]. Qed.

Section Typed.
  Variable P : prog.
  Notation G := (b_graph (build (p_decls P) (p_inp P) (p_out P))).
  Hypothesis Hsw : forall n, is_switch G n = false.
  Hypothesis Hhd : forall n, is_head G n = false.
  Hypothesis Hbody : forall i kw a v, p_body P i kw a = OVal v -> clean v = true.

  Ltac plain_prep4 :=
    repeat match goal with
           | H : (_ && _)%bool = true |- _ => apply andb_true_iff in H; destruct H
           | H : is_main P ?d = true |- _ => apply is_main_eq in H; subst d
           | H : negb ?f = true |- _ => apply negb_true_iff in H; subst f
           | H : ?u = true |- _ => is_var u; subst u
           end.

  Lemma plain_step_typed t fr rest sg st :
    plain_frame P fr = true -> clean_sig sg -> PS st -> handled fr sg = true -> chainb (fr :: rest) = true -> plain_stack P rest = true ->
    typed_dir fr rest (snd (step_frame P t fr sg st)).
  Proof.
    intros Hf Hs Hst Hh Hc Hpr. pose proof Hst as Hst'. unfold PS in Hst'.
    assert (Hret : forall s', (forall g, plain_frame P g = true -> awaits_b g (cls_of fr) = true -> handled g s' = true) -> typed_stack rest s' = true).
    { intros s' H. destruct rest as [|g r]; [reflexivity|]. cbn [typed_stack]. cbn [plain_stack forallb] in Hpr. apply andb_true_iff in Hpr.
      apply H; [apply Hpr|]. cbn [chainb] in Hc. apply andb_true_iff in Hc. apply Hc. }
    revert Hret.
    destruct fr; try discriminate Hf; cbn [plain_frame] in Hf; plain_prep4;
      destruct sg; cbn [clean_sig] in Hs; try discriminate Hh;
      try match goal with H : clean ?v = true |- _ => pose proof (clean_not_rec v H) as Hnr; pose proof (clean_not_exn v H) as Hne end;
      cbn [step_frame]; rewrite ?Hnr, ?Hne, ?Hsw, ?Hhd, ?(plain_dep_error P _ _ _ Hst'), ?(plain_no_subgraph_error _ _ Hst');
      unfold default_or_raise, reduced; cbn [d_oneof d_rec maind andb];
      repeat break_match; cbn [snd typed_dir app typed_stack emit_frames handled cls_of]; intros Hret; try reflexivity;
      try apply typed_throw;
      try (apply Hret; intros g Hpg Hg; destruct g; try discriminate Hg; try discriminate Hpg; reflexivity).
  Qed.
End Typed.

Section TypedInv.
  Variable P : prog.
  Notation G := (b_graph (build (p_decls P) (p_inp P) (p_out P))).
  Hypothesis Hsw : forall n, is_switch G n = false.
  Hypothesis Hhd : forall n, is_head G n = false.
  Hypothesis Hbody : forall i kw a v, p_body P i kw a = OVal v -> clean v = true.

  Definition typed_cur (c : running) : Prop := match c with Some (_, k, sg) => typed_stack k sg = true | None => True end.

  Lemma typed_wake x w k : t_state x = TWait w k -> typed_TP x -> typed_TP (with_ts x (TReady k SGo)).
  Proof. unfold typed_TP. intros E H. rewrite E in H. exact H. Qed.
  Lemma typed_cancel_ready x k sg : t_state x = TReady k sg -> typed_TP x -> typed_TP (with_ts x (TReady k (SThrow XCancelled))).
  Proof. unfold typed_TP. intros E H. cbn. apply typed_throw. Qed.
  Lemma typed_cancel_wait x w k : t_state x = TWait w k -> typed_TP x -> typed_TP (with_ts x (TReady k (SThrow XCancelled))).
  Proof. unfold typed_TP. intros E H. cbn. apply typed_throw. Qed.

  Theorem creach_typed : forall st c, creach P st c -> tasks_ok typed_TP st /\ typed_cur c.
  Proof.
    intros st c H. pose proof (creach_base P Hsw Hhd Hbody st c H) as Hb0.
    induction H as [|st t rest x k sg H IH Hq Hf Ht|st t rest H IH Hq|st t fr rest sg H IH|st t sg H IH|st c H IH|st g H IH|st H IH].
    - split; [|exact I]. unfold tasks_ok, init_state. cbn. constructor; [reflexivity|constructor].
    - destruct (IH (creach_base P Hsw Hhd Hbody _ _ H)) as [A _]. split; [apply ok_dequeue; exact A|].
      destruct (find_task_in _ _ _ Hf) as [Hin _]. unfold tasks_ok in A. rewrite Forall_forall in A. specialize (A x Hin). unfold typed_TP in A. rewrite Ht in A. exact A.
    - destruct (IH (creach_base P Hsw Hhd Hbody _ _ H)) as [A _]. split; [apply ok_dequeue; exact A|exact I].
    - pose proof (creach_base P Hsw Hhd Hbody _ _ H) as Hb. destruct (IH Hb) as [A B]. cbn [typed_cur typed_stack] in B.
      destruct (b_cur _ _ _ Hb) as [x0 [Hf0 [Hk [Hs [Ho [Hc _]]]]]]. cbn [plain_stack forallb] in Hk. apply andb_true_iff in Hk. destruct Hk as [Kf Kr].
      pose proof (plain_step_typed P t fr rest sg st Kf Hs (b_ps _ _ _ Hb) B Hc Kr) as Hd.
      assert (A1 : tasks_ok typed_TP (fst (step_frame P t fr sg st))).
      { apply (plain_step_tasks_gen P Hsw Hhd typed_TP typed_wake typed_cancel_ready typed_cancel_wait); try assumption; [| |exact (b_ps _ _ _ Hb)]; intros; reflexivity. }
      destruct (step_frame P t fr sg st) as [st1 [w k'|k'|k' sg'|sg']]; cbn [after_step fst snd typed_dir typed_cur] in *.
      + split; [|exact I]. apply ok_suspend; [exact A1|]. intros y _ _. exact Hd.
      + split; [|exact I]. apply ok_push_ready. apply ok_set_tstate; [exact A1|]. intros y _ _. exact Hd.
      + split; assumption.
      + split; assumption.
    - destruct (IH (creach_base P Hsw Hhd Hbody _ _ H)) as [A _]. split; [|exact I]. apply ok_set_tstate; [exact A|]. intros y _ _. exact I.
    - destruct (IH (creach_base P Hsw Hhd Hbody _ _ H)) as [A _]. split; [|exact I]. apply ok_abort; [|exact A]. intros y k0 _. exact I.
    - destruct (IH (creach_base P Hsw Hhd Hbody _ _ H)) as [A _]. split; [|exact I]. apply (complete_gate_tasks_ok typed_TP typed_wake). exact A.
    - destruct (IH (creach_base P Hsw Hhd Hbody _ _ H)) as [A _]. split; [|exact I]. apply (ok_cancel_task typed_TP typed_cancel_ready typed_cancel_wait). exact A.
  Qed.
End TypedInv.

(* ---- storage facts on plain stores ------------------------------------------------------------------------------------------ *)
From MLPE Require Import Proofs.AssocLemmas.

Lemma result_set m n v s : s_res_hidden s = [] -> exists_result m (set_result n v s) = key_eqb m n || exists_result m s.
Proof.
  intros Hh. unfold exists_result, get_result_opt, set_result. cbn. rewrite Hh. cbn.
  destruct (key_eqb m n) eqn:E.
  - apply key_eqb_spec in E. subst. rewrite (alookup_aset_same key_eqb key_eqb_spec). reflexivity.
  - rewrite (alookup_aset_other key_eqb key_eqb_spec); [reflexivity|]. intros ->. rewrite key_eqb_refl in E. discriminate.
Qed.

Lemma result_set_processed m n s : exists_result m (set_processed n s) = exists_result m s.
Proof. reflexivity. Qed.
Lemma processed_set_result m n v s : exists_processed m (set_result n v s) = exists_processed m s.
Proof. reflexivity. Qed.

(* two tasks for one node contradict the uniqueness of node names *)
Lemma node_names_unique (l : list (task frame)) x y m :
  NoDup (flat_map (fun nm => match nm with TNNode k => [k] | _ => [] end) (map (@t_name frame) l)) ->
  In x l -> In y l -> t_id x <> t_id y -> t_name x = TNNode m -> t_name y = TNNode m -> False.
Proof.
  intros Hnd Hx Hy Hne Ex Ey.
  assert (One : forall (r : list (task frame)) z, In z r -> t_name z = TNNode m ->
                                                   In m (flat_map (fun nm => match nm with TNNode k => [k] | _ => [] end) (map (@t_name frame) r))).
  { intros r z Hz Ez. apply in_flat_map. exists (TNNode m). split; [rewrite <- Ez; apply in_map; exact Hz|left; reflexivity]. }
  induction l as [|z r IH]; [contradiction|]. cbn [map flat_map] in Hnd.
  destruct Hx as [Hx|Hx]; destruct Hy as [Hy|Hy].
  - subst. contradiction.
  - subst z. rewrite Ex in Hnd. cbn in Hnd. inversion Hnd; subst. apply H1. exact (One r y Hy Ey).
  - subst z. rewrite Ey in Hnd. cbn in Hnd. inversion Hnd; subst. apply H1. exact (One r x Hx Ex).
  - apply IH; try assumption. clear -Hnd. induction (match t_name z with TNNode k => [k] | _ => [] end) as [|a l' IH']; [exact Hnd|].
    cbn in Hnd. inversion Hnd; subst. apply IH'. assumption.
Qed.

Section NodeSteps.
  Variable P : prog.
  Notation G := (b_graph (build (p_decls P) (p_inp P) (p_out P))).
  Hypothesis Hsw : forall n, is_switch G n = false.
  Hypothesis Hhd : forall n, is_head G n = false.
  Hypothesis Hbody : forall i kw a v, p_body P i kw a = OVal v -> clean v = true.

  Ltac plain_prep5 :=
    repeat match goal with
           | H : (_ && _)%bool = true |- _ => apply andb_true_iff in H; destruct H
           | H : is_main P ?d = true |- _ => apply is_main_eq in H; subst d
           | H : negb ?f = true |- _ => apply negb_true_iff in H; subst f
           | H : ?u = true |- _ => is_var u; subst u
           end.
  Lemma plain_step_starts t fr sg st :
    plain_frame P fr = true -> clean_sig sg -> PS st ->
    forallb (fun f => negb (is_start_frame f)) (tl (dir_frames (snd (step_frame P t fr sg st)))) = true /\
    (head_ok (dir_frames (snd (step_frame P t fr sg st))) = false -> exists d0 n f, fr = FNodeStart d0 n f).
  Proof.
    intros Hf Hs Hst. pose proof Hst as Hst'. unfold PS in Hst'.
    destruct fr; try discriminate Hf; cbn [plain_frame] in Hf; plain_prep5;
      destruct sg; cbn [clean_sig] in Hs;
      try match goal with H : clean ?v = true |- _ => pose proof (clean_not_rec v H) as Hnr; pose proof (clean_not_exn v H) as Hne end;
      cbn [step_frame]; rewrite ?Hnr, ?Hne, ?Hsw, ?Hhd, ?(plain_dep_error P _ _ _ Hst'), ?(plain_no_subgraph_error _ _ Hst');
      unfold default_or_raise, reduced; cbn [d_oneof d_rec maind andb];
      repeat break_match; cbn [snd dir_frames tl forallb head_ok is_start_frame negb emit_frames andb];
      (split; [reflexivity|intros H; try discriminate H; eauto]).
  Qed.

  Lemma plain_step_dup t fr sg st :
    plain_frame P fr = true -> clean_sig sg -> PS st ->
    existsb is_dup_frame (dir_frames (snd (step_frame P t fr sg st))) = true \/ dir_sig (snd (step_frame P t fr sg st)) = Some SElsewhere ->
    (exists d0 n f, fr = FExecStart d0 n f /\ sg = SGo /\ exists_processed n (st_store st) = true) \/ (exists n, fr = FExecDup n).
  Proof.
    intros Hf Hs Hst. pose proof Hst as Hst'. unfold PS in Hst'.
    destruct fr; try discriminate Hf; cbn [plain_frame] in Hf; plain_prep5;
      destruct sg; cbn [clean_sig] in Hs;
      try match goal with H : clean ?v = true |- _ => pose proof (clean_not_rec v H) as Hnr; pose proof (clean_not_exn v H) as Hne end;
      cbn [step_frame]; rewrite ?Hnr, ?Hne, ?Hsw, ?Hhd, ?(plain_dep_error P _ _ _ Hst'), ?(plain_no_subgraph_error _ _ Hst');
      unfold default_or_raise, reduced; cbn [d_oneof d_rec maind andb];
      repeat break_match; cbn [snd dir_frames dir_sig existsb is_dup_frame emit_frames orb];
      intros [H|H]; try discriminate H; eauto 10.
  Qed.

  Lemma plain_step_after_save t fr sg st :
    plain_frame P fr = true -> clean_sig sg -> PS st ->
    existsb is_after_save (dir_frames (snd (step_frame P t fr sg st))) = true -> exists d0 n res, fr = FNodeAfterExec d0 n /\ sg = SVal res.
  Proof.
    intros Hf Hs Hst. pose proof Hst as Hst'. unfold PS in Hst'.
    destruct fr; try discriminate Hf; cbn [plain_frame] in Hf; plain_prep5;
      destruct sg; cbn [clean_sig] in Hs;
      try match goal with H : clean ?v = true |- _ => pose proof (clean_not_rec v H) as Hnr; pose proof (clean_not_exn v H) as Hne end;
      cbn [step_frame]; rewrite ?Hnr, ?Hne, ?Hsw, ?Hhd, ?(plain_dep_error P _ _ _ Hst'), ?(plain_no_subgraph_error _ _ Hst');
      unfold default_or_raise, reduced; cbn [d_oneof d_rec maind andb];
      repeat break_match; cbn [snd dir_frames existsb is_after_save emit_frames orb]; intros H; try discriminate H; eauto.
  Qed.

  (* the bottom frame of a node task returns only through its `finally` *)
  Lemma plain_step_knode_ret t fr sg st s' :
    plain_frame P fr = true -> clean_sig sg -> PS st -> is_knode fr = true -> handled fr sg = true ->
    snd (step_frame P t fr sg st) = DRet s' -> sg <> SElsewhere -> (forall d0 n f, fr = FNodeStart d0 n f -> sg = SGo) ->
    exists n, step_event fr sg = Some n /\ ((exists e, s' = SThrow e) \/ is_after_save fr = true).
  Proof.
    intros Hf Hs Hst Hk Hh. pose proof Hst as Hst'. unfold PS in Hst'.
    destruct fr; try discriminate Hf; cbn [plain_frame] in Hf; plain_prep5;
      destruct sg; cbn [clean_sig] in Hs;
      try match goal with H : clean ?v = true |- _ => pose proof (clean_not_rec v H) as Hnr; pose proof (clean_not_exn v H) as Hne end;
      cbn [step_frame]; rewrite ?Hnr, ?Hne, ?Hsw, ?Hhd, ?(plain_dep_error P _ _ _ Hst'), ?(plain_no_subgraph_error _ _ Hst');
      unfold default_or_raise, reduced; cbn [d_oneof d_rec maind andb];
      repeat break_match; try discriminate Hk; try discriminate Hh; cbn [snd step_event is_after_save];
      intros H Hnels Hst0; try discriminate H; inversion H; subst; eauto;
      try (exfalso; apply Hnels; reflexivity); try (specialize (Hst0 _ _ _ eq_refl); discriminate Hst0).
  Qed.

  (* an event is set only by a step that returns *)
  Lemma plain_step_event_ret t fr sg st n :
    plain_frame P fr = true -> clean_sig sg -> PS st -> step_event fr sg = Some n ->
    exists s', snd (step_frame P t fr sg st) = DRet s'.
  Proof.
    intros Hf Hs Hst. pose proof Hst as Hst'. unfold PS in Hst'.
    destruct fr; try discriminate Hf; cbn [plain_frame] in Hf; plain_prep5;
      destruct sg; cbn [clean_sig] in Hs;
      try match goal with H : clean ?v = true |- _ => pose proof (clean_not_rec v H) as Hnr; pose proof (clean_not_exn v H) as Hne end;
      cbn [step_frame]; rewrite ?Hnr, ?Hne, ?Hsw, ?Hhd, ?(plain_dep_error P _ _ _ Hst'), ?(plain_no_subgraph_error _ _ Hst');
      unfold default_or_raise, reduced; cbn [d_oneof d_rec maind andb];
      repeat break_match; cbn [snd step_event]; intros H; try discriminate H; eauto.
  Qed.
End NodeSteps.

Lemma nostart_head k : forallb (fun f => negb (is_start_frame f)) k = true -> head_ok k = true.
Proof. destruct k as [|f r]; [reflexivity|]. cbn. intros H. apply andb_true_iff in H. apply H. Qed.

Lemma sig_of_nstate rest d s : sig_of (nstate rest d) = Some s -> dir_sig d = Some s \/ s = SGo.
Proof.
  destruct d as [w k'|k'|k' sg'|sg']; cbn [nstate sig_of dir_sig].
  - discriminate.
  - intros H. inversion H. auto.
  - destruct (k' ++ rest); cbn; [discriminate|]. intros H. inversion H. auto.
  - destruct rest; cbn; [discriminate|]. intros H. inversion H. auto.
Qed.

Lemma nstate_done rest fr d r : dir_ok fr d -> nstate rest d = TDone r -> d = DRet r /\ rest = [].
Proof.
  destruct d as [w k'|k'|k' sg'|sg']; cbn [nstate dir_ok]; try discriminate.
  - intros [Hne _]. destruct k'; [contradiction|]. cbn. discriminate.
  - intros _. destruct rest; [|discriminate]. intros H. inversion H. auto.
Qed.

Lemma NoDup_app_l {A} (a b : list A) : NoDup (a ++ b) -> NoDup a.
Proof.
  induction a as [|x a IH]; intros H; [constructor|]. cbn in H. inversion H; subst. constructor.
  - intros Hin. apply H2. apply in_or_app. left. exact Hin.
  - apply IH. assumption.
Qed.

Section StepMono.
  Variable P : prog.

  Lemma step_store_res_mono fr sg (st : mstate) m :
    s_res_hidden (st_store st) = [] -> exists_result m (st_store st) = true -> exists_result m (step_store fr sg st) = true.
  Proof.
    intros Hh H. unfold step_store. destruct fr; try exact H; destruct sg; try exact H.
    - destruct (exists_processed n (st_store st)); exact H.
    - rewrite (result_set _ _ _ _ Hh), H. apply orb_true_r.
  Qed.

  (* what a frame of another coroutine family does not touch *)
  Lemma step_untouched nm fr sg (st : mstate) m :
    owner nm fr = true -> nm <> TNNode m -> s_res_hidden (st_store st) = [] ->
    exists_processed m (step_store fr sg st) = exists_processed m (st_store st) /\
    exists_result m (step_store fr sg st) = exists_result m (st_store st) /\
    (forall n, step_event fr sg = Some n -> key_eqb m n = false).
  Proof.
    intros Ho Hne Hh.
    assert (K : forall n, node_frame_key nm n = true -> key_eqb m n = false).
    { intros n Hn. destruct (key_eqb m n) eqn:E; [|reflexivity]. apply key_eqb_spec in E. subst n. exfalso. apply Hne.
      unfold node_frame_key in Hn. destruct nm; try discriminate Hn. apply key_eqb_spec in Hn. subst. reflexivity. }
    unfold step_store, step_event.
    destruct fr; try (repeat split; try reflexivity; intros n0 Hn0; discriminate Hn0); destruct sg;
      try (repeat split; try reflexivity; intros n0 Hn0; discriminate Hn0).
    - (* FNodeAfterExec SVal *) repeat split; [| |intros n0 Hn0; discriminate Hn0].
      + apply processed_set_result.
      + rewrite (result_set _ _ _ _ Hh). rewrite (K n); [reflexivity|]. destruct nm; try discriminate Ho. exact Ho.
    - repeat split; try reflexivity. intros n0 Hn0. inversion Hn0; subst. apply K. destruct nm; try discriminate Ho. exact Ho.
    - repeat split; try reflexivity. intros n0 Hn0. inversion Hn0; subst. apply K. destruct nm; try discriminate Ho. exact Ho.
    - destruct unlock; repeat split; try reflexivity; intros n0 Hn0; try discriminate Hn0. inversion Hn0; subst. apply K. destruct nm; try discriminate Ho. exact Ho.
    - destruct unlock; repeat split; try reflexivity; intros n0 Hn0; try discriminate Hn0. inversion Hn0; subst. apply K. destruct nm; try discriminate Ho. exact Ho.
    - (* FExecStart SGo *) destruct (exists_processed n (st_store st)) eqn:E; repeat split; try reflexivity; try (intros n0 Hn0; discriminate Hn0).
      rewrite processed_set. rewrite (K n); [reflexivity|]. destruct nm; try discriminate Ho. exact Ho.
  Qed.
End StepMono.
