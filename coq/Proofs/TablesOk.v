(* The constants the model uses agree with the tables regenerated from /repo on this run. *)
From Coq Require Import String.
From MLPE Require Import gen.Tables Pure.Retry.

Definition nspec_with (a : option Z) (d : option nat) (e : option (list exc_cls)) : nspec :=
  {| ns_params := []; ns_mode := MGated; ns_attempts := a; ns_delay := d; ns_excs := e; ns_default := false |}.

Lemma default_attempts_ok :
  pol_attempts (nspec_with None None None) = retry_default_attempts
  /\ pol_attempts (nspec_with (Some 0%Z) None None) = retry_default_attempts.
Proof. split; reflexivity. Qed.

Lemma default_delay_ok : pol_delay (nspec_with None None None) = retry_default_delay.
Proof. reflexivity. Qed.

Lemma default_exceptions_ok :
  pol_excs (nspec_with None None None) = retry_default_exceptions
  /\ pol_excs (nspec_with None None (Some [])) = retry_default_exceptions.
Proof. split; reflexivity. Qed.

(* Names of the node / edge attributes the model's graph records stand for. *)
Lemma node_fields_ok :
  map snd node_field_members =
  ["is_switch"; "is_oneof"; "is_oneof_child"; "oneof_nodes"; "start_node"; "max_iterations"; "additional_data"]%string.
Proof. reflexivity. Qed.

Lemma edge_fields_ok : map snd edge_field_members = ["kwarg_name"; "is_switch"; "case_branch"]%string.
Proof. reflexivity. Qed.
