(* Plain programs: the value PipelineChart.run returns is the result stored for the output node while manager.run was pending --
   hence the value the output node's policy prescribes for its body applied to the final results of its inputs (PlainValues.v),
   and the same value under every schedule. *)
From MLPE Require Import Engine.Run Proofs.ExecLemmas Proofs.Evolve Proofs.StackInv Proofs.ReadyInv Proofs.WaitInv Explore.StateEq
     Proofs.ProcessedInv Proofs.PlainWorld Proofs.PlainLaunch Proofs.PlainLive Proofs.Micro Proofs.PlainBase Proofs.PlainCore Proofs.PlainInv
     Proofs.PlainRoles Proofs.PlainExec Proofs.PlainWait Proofs.PlainDeadlock Proofs.PlainArgs Proofs.PlainValues.

Definition last_kchart (k : list frame) : bool :=
  match k with [] => true | f :: r => match cls_of (last r f) with KChart => true | _ => false end end.

Lemma last_kchart_seg fr rest k' : seg_ok fr k' -> last_kchart (fr :: rest) = true -> last_kchart (k' ++ rest) = true.
Proof.
  intros [Hne [_ [Hl _]]] H. destruct k' as [|f k'']; [contradiction|]. cbn [app last_kchart] in *.
  destruct rest as [|g r].
  - rewrite app_nil_r. rewrite last_cons_default in Hl. cbn [last] in H. rewrite Hl. exact H.
  - rewrite (last_app_ne k'' (g :: r) f); [|discriminate]. rewrite last_cons_default in H. rewrite last_cons_default. exact H.
Qed.
Lemma last_kchart_tail fr rest : last_kchart (fr :: rest) = true -> last_kchart rest = true.
Proof. destruct rest as [|g r]; [reflexivity|]. cbn [last_kchart]. rewrite last_cons_default. auto. Qed.

Section Outcome.
  Variable P : prog.
  Notation G := (b_graph (build (p_decls P) (p_inp P) (p_out P))).
  Notation out := (b_output (build (p_decls P) (p_inp P) (p_out P))).
  Hypothesis Hsw : forall n, is_switch G n = false.
  Hypothesis Hhd : forall n, is_head G n = false.
  Hypothesis Hbody : forall i kw a v, p_body P i kw a = OVal v -> clean v = true.

  (* v is the result the output node had at some point while manager.run was pending *)
  Definition W (v : value) : Prop :=
    exists st0 c0, creach P st0 c0 /\ over st0 = false /\ main_done st0 = false /\
                   exists_result out (st_store st0) = true /\ get_result out true (st_store st0) = v.

  Definition PhiO (i : idt) (ts : tstate frame) : Prop :=
    fst (fst i) = main_tid ->
      last_kchart (estack ts) = true /\
      (forall v, In (FChartAfterEmitOk v) (estack ts) -> W v) /\
      (forall r v, ts = TReady (FChartAfterRun :: r) (SVal v) -> W v) /\
      (forall v, ts = TDone (SVal v) -> W v).

  Lemma PhiO_wake : wake_closed PhiO.
  Proof.
    intros i w k H Hi. destruct (H Hi) as (A & B & C & D). cbn [estack] in *. split; [exact A|]. split; [exact B|]. split.
    - intros r v Hx. discriminate Hx.
    - intros v Hx. discriminate Hx.
  Qed.

  Ltac plain_prep10 :=
    repeat match goal with
           | H : (_ && _)%bool = true |- _ => apply andb_true_iff in H; destruct H
           | H : is_main P ?d = true |- _ => apply is_main_eq in H; subst d
           | H : negb ?f = true |- _ => apply negb_true_iff in H; subst f
           | H : ?u = true |- _ => is_var u; subst u
           end.

  (* the frame that holds the value while on_pipeline_complete is emitted is pushed by FChartAfterRun only *)
  Lemma plain_step_push_emit_ok t fr sg st v :
    plain_frame P fr = true -> clean_sig sg -> PS st ->
    In (FChartAfterEmitOk v) (dir_frames (snd (step_frame P t fr sg st))) -> fr = FChartAfterRun /\ sg = SVal v.
  Proof.
    intros Hf Hs Hst. pose proof Hst as Hst'. unfold PS in Hst'.
    destruct fr; try discriminate Hf; cbn [plain_frame] in Hf; plain_prep10;
      destruct sg; cbn [clean_sig] in Hs;
      try match goal with H : clean ?v = true |- _ => pose proof (clean_not_rec v H) as Hnr; pose proof (clean_not_exn v H) as Hne end;
      cbn [step_frame]; rewrite ?Hnr, ?Hne, ?Hsw, ?Hhd, ?(plain_dep_error P _ _ _ Hst'), ?(plain_no_subgraph_error _ _ Hst');
      unfold default_or_raise, reduced; cbn [d_oneof d_rec maind andb];
      repeat break_match; cbn [snd dir_frames emit_frames]; intros Hin;
      repeat (destruct Hin as [Hin|Hin]; [try discriminate Hin; inversion Hin; subst; auto|]); try contradiction.
  Qed.

  (* a chart frame that returns a value returns the value it holds *)
  Lemma plain_step_chart_ret t fr sg st v :
    plain_frame P fr = true -> clean_sig sg -> PS st -> cls_of fr = KChart ->
    snd (step_frame P t fr sg st) = DRet (SVal v) -> fr = FChartAfterEmitOk v.
  Proof.
    intros Hf Hs Hst. pose proof Hst as Hst'. unfold PS in Hst'.
    destruct fr; try discriminate Hf; cbn [plain_frame] in Hf; plain_prep10;
      destruct sg; cbn [clean_sig] in Hs;
      try match goal with H : clean ?v = true |- _ => pose proof (clean_not_rec v H) as Hnr; pose proof (clean_not_exn v H) as Hne end;
      cbn [step_frame]; rewrite ?Hnr, ?Hne, ?Hsw, ?Hhd, ?(plain_dep_error P _ _ _ Hst'), ?(plain_no_subgraph_error _ _ Hst');
      unfold default_or_raise, reduced; cbn [d_oneof d_rec maind andb];
      repeat break_match; cbn [snd cls_of]; intros Hk H; try discriminate Hk; try discriminate H; inversion H; subst; reflexivity.
  Qed.

  Lemma owner_main_cls nm f : owner nm f = true -> nm = TNMain -> main_frame f = true.
  Proof. intros H ->. exact H. Qed.

  Theorem creach_outcome : forall st c, creach P st c -> allT PhiO st c.
  Proof.
    intros st c H. pose proof (creach_base P Hsw Hhd Hbody st c H) as Hb0.
    induction H as [|st t rest x k sg H IH Hq Hf Ht|st t rest H IH Hq|st t fr rest sg H IH|st t sg H IH|st c H IH|st g H IH|st H IH].
    - unfold allT, tasks_ok, init_state. cbn. constructor; [|constructor]. unfold TPc, PhiO. cbn. intros _. split; [reflexivity|].
      split; [intros v [Hx|[]]; discriminate Hx|]. split; [intros r v Hx; discriminate Hx|intros v Hx; discriminate Hx].
    - pose proof (creach_base P Hsw Hhd Hbody _ _ H) as Hb. eapply (allT_start P); try eassumption. apply IH. exact Hb.
    - apply IH. exact (creach_base P Hsw Hhd Hbody _ _ H).
    - pose proof (creach_base P Hsw Hhd Hbody _ _ H) as Hb. specialize (IH Hb).
      pose proof (creach_mainname P Hsw Hhd Hbody _ _ H) as Hmn.
      destruct (b_cur _ _ _ Hb) as [x0 [Hf0 [Hk [Hs [Ho [Hc [Hms [k0 [sg0 Hrdy]]]]]]]]].
      cbn [plain_stack forallb] in Hk, Ho. apply andb_true_iff in Hk. destruct Hk as [Kf Kr]. apply andb_true_iff in Ho. destruct Ho as [Of Or].
      destruct (find_task_in _ _ _ Hf0) as [Hin0 Hid0].
      pose proof (b_ps _ _ _ Hb) as Hps.
      pose proof (allT_In _ _ _ x0 IH Hin0) as Hx0. unfold PhiO in Hx0. cbn [estate ident fst] in Hx0. rewrite Hid0, Nat.eqb_refl in Hx0.
      pose proof (step_frame_dir_ok P t fr sg st) as Hdo.
      (* what the running task looks like afterwards, when it is the chart task *)
      assert (Hrun : t = main_tid -> PhiO (ident x0) (nstate rest (snd (step_frame P t fr sg st)))).
      { intros Ht _. destruct (Hx0 Ht) as (L0 & L1 & L2 & L3). cbn [estack] in L0, L1.
        assert (Hmf : main_frame fr = true).
        { specialize (Hms Ht). cbn [main_stack forallb] in Hms. apply andb_true_iff in Hms. apply Hms. }
        rewrite estack_nstate. split; [|split; [|split]].
        - destruct (snd (step_frame P t fr sg st)) as [w k'|k'|k' s'|s'] eqn:Ed; cbn [dir_frames dir_ok] in *;
            try (apply (last_kchart_seg fr); assumption). cbn [app]. apply (last_kchart_tail fr). exact L0.
        - intros v Hin. apply in_app_or in Hin. destruct Hin as [Hin|Hin]; [|apply L1; right; exact Hin].
          destruct (plain_step_push_emit_ok t fr sg st v Kf Hs Hps Hin) as [-> ->]. exact (L2 rest v eq_refl).
        - intros r v Hn.
          destruct (snd (step_frame P t fr sg st)) as [w k'|k'|k' s'|s'] eqn:Ed; cbn [nstate] in Hn.
          + discriminate Hn.
          + inversion Hn.
          + exfalso. destruct (k' ++ rest); [discriminate Hn|]. injection Hn as _ _ Es. rewrite Es in Ed.
            exact (plain_step_cont_go P t fr sg st k' (SVal v) Kf Hs Hps Ed v eq_refl).
          + (* a value returned into FChartAfterRun comes from manager.run *)
            destruct rest as [|g rest']; [discriminate Hn|]. injection Hn as Eg Er Es. subst g r. rewrite Es in Ed. clear Es.
            assert (Haw : awaits_b FChartAfterRun (cls_of fr) = true) by (cbn [chainb] in Hc; apply andb_true_iff in Hc; apply Hc).
            assert (Efr : fr = FRunWait) by (destruct fr; try discriminate Hmf; try discriminate Haw; try reflexivity; destruct ev; destruct n; discriminate Haw).
            subst fr.
            assert (Hsg : sg = SGo \/ exists e, sg = SThrow e).
            { destruct sg; auto; eauto; cbn [step_frame] in Ed; discriminate Ed. }
            destruct Hsg as [->|[e ->]]; [|cbn [step_frame snd] in Ed; discriminate Ed].
            cbn [step_frame] in Ed. destruct (run_pred P st) eqn:Erp; [|discriminate Ed].
            destruct (task_errors st) as [|e0 es] eqn:Ete; cbn [snd] in Ed; [|discriminate Ed]. inversion Ed; subst v.
            exists st, (Some (t, FRunWait :: FChartAfterRun :: rest', SGo)).
            split; [exact H|]. split.
            { destruct (over st) eqn:Eo; [|reflexivity]. exfalso. destruct (creach_late P Hsw Hhd Hbody _ _ H) as [Hl|HL]; [congruence|].
              pose proof (allT_In _ _ _ x0 HL Hin0) as Hy. unfold PhiL in Hy. cbn [estate ident fst] in Hy.
              destruct (find_task_in _ _ _ Hf0) as [_ Hidt]. rewrite Hidt, Nat.eqb_refl in Hy. specialize (Hy Ht). cbn in Hy. discriminate Hy. }
            split.
            { unfold main_done, main_state. rewrite <- Ht, Hf0. cbn. rewrite Hrdy. reflexivity. }
            unfold run_pred in Erp. rewrite Ete in Erp. cbn in Erp. split; [exact Erp|reflexivity].
        - intros v Hn. destruct (nstate_done _ _ _ _ Hdo Hn) as [Hd ->]. cbn [last_kchart last] in L0.
          assert (Hkc : cls_of fr = KChart) by (destruct (cls_of fr); try discriminate L0; reflexivity).
          rewrite (plain_step_chart_ret t fr sg st v Kf Hs Hps Hkc Hd) in L1. apply L1. left. reflexivity. }
      destruct (leaves_run fr sg (snd (step_frame P t fr sg st))) eqn:Hlr.
      + (* manager.run returns: the chart task goes on; the other tasks are not the chart task *)
        destruct (leaves_run_frame _ _ _ Hlr) as [Efr [s' Ed]].
        assert (Hmain : t = main_tid).
        { subst fr. rewrite <- Hid0. unfold tasks_ok in Hmn. rewrite Forall_forall in Hmn. apply (Hmn x0 Hin0). apply owner_run. exact Of. }
        specialize (Hrun Hmain).
        assert (Hident : forall y, In y (st_tasks (fst (step_frame P t fr sg st))) -> t_id y = t -> ident y = ident x0).
        { intros y Hy Hi. exact (run_ident P st t fr sg x0 y (b_ev _ _ _ Hb) Hf0 Hy Hi). }
        destruct (step_frame P t fr sg st) as [st1 d]. cbn [snd fst] in *. subst d. cbn [after_step fst snd nstate] in *.
        unfold allT, tasks_ok. rewrite Forall_forall. intros y Hy. unfold TPc. cbn [estate].
        destruct (Nat.eqb (t_id y) t) eqn:E.
        * apply Nat.eqb_eq in E. rewrite (Hident y Hy E). exact Hrun.
        * intros Hi. cbn [ident fst] in Hi. apply Nat.eqb_neq in E. exfalso. apply E. rewrite Hi, Hmain. reflexivity.
      + apply (allT_step P Hsw Hhd PhiO PhiO); try assumption.
        * apply PhiO_wake.
        * intros nm _. unfold PhiO. cbn [fst]. pose proof (base_next _ _ _ Hb). unfold main_tid. intros; lia.
        * intros y ts _ _ Hy. exact Hy.
        * intros x Hx Hid. rewrite (run_ident P st t fr sg x0 x (b_ev _ _ _ Hb) Hf0 Hx Hid). intros Hi. apply Hrun; [|exact Hi].
          cbn [ident fst] in Hi. rewrite <- Hid0. exact Hi.
    - pose proof (creach_base P Hsw Hhd Hbody _ _ H) as Hb. apply (allT_done P); [exact Hb|apply IH; exact Hb].
    - unfold allT, tasks_ok, abort. cbn [st_tasks]. rewrite Forall_forall. intros y Hy.
      apply in_map_iff in Hy. destruct Hy as [x [<- _]]. unfold TPc, PhiO. cbn. intros _. split; [reflexivity|].
      split; [intros v []|]. split; [intros r v Hx; discriminate Hx|intros v Hx; discriminate Hx].
    - apply allT_gate; [apply PhiO_wake|apply IH; exact (creach_base P Hsw Hhd Hbody _ _ H)].
    - apply allT_cancel_main; [| |apply IH; exact (creach_base P Hsw Hhd Hbody _ _ H)].
      + intros i k s Hi Hp _. destruct (Hp Hi) as (A & B & C & D). cbn [estack] in *. split; [exact A|]. split; [exact B|].
        split; [intros r v Hx; discriminate Hx|intros v Hx; discriminate Hx].
      + intros i w k Hi Hp _. destruct (Hp Hi) as (A & B & C & D). cbn [estack] in *. split; [exact A|]. split; [exact B|].
        split; [intros r v Hx; discriminate Hx|intros v Hx; discriminate Hx].
  Qed.
End Outcome.

(* ---- the theorems on schedule-reachable states ------------------------------------------------------------------------------------ *)
Section OutcomeTheorems.
  Variable P : prog.
  Notation G := (b_graph (build (p_decls P) (p_inp P) (p_out P))).
  Notation out := (b_output (build (p_decls P) (p_inp P) (p_out P))).
  Hypothesis HP : plain_prog P.
  Notation order := (p_order P (maind P)).
  Hypothesis Hnd : NoDup order.
  Hypothesis Htopo : forall n p a b, order = a ++ n :: b -> In p (preds G n) -> In p a.

  Lemma returned_value_was_stored st v :
    reachable P st -> main_state st = Some (TDone (SVal v)) -> W P v.
  Proof.
    destruct HP as (Hg & Hb & _). destruct (graph_plain_sound _ Hg) as [Hsw Hhd].
    intros Hr Hm. pose proof (reachable_creach P st Hr) as Hc. pose proof (creach_outcome P Hsw Hhd Hb st None Hc) as HO.
    destruct (reachable_find_main P st Hr) as [x [Hf [_ Hid]]]. destruct (find_task_in _ _ _ Hf) as [Hin _].
    unfold main_state in Hm. rewrite Hf in Hm. cbn in Hm. inversion Hm as [Es].
    destruct (allT_In _ _ _ x HO Hin Hid) as (_ & _ & _ & D). cbn [estate] in D. apply D. exact Es.
  Qed.

  (* the value run returns is the one the output node's policy prescribes for its body applied to the final results of its inputs *)
  Theorem plain_returned_value_is_prescribed st v :
    reachable P st -> main_state st = Some (TDone (SVal v)) ->
    exists st0 c0, creach P st0 c0 /\ pending st0 /\ okv P st0 out v /\
                   forall p, In p (preds G out) -> exists_result p (st_store st0) = true.
  Proof.
    intros Hr Hm. destruct (returned_value_was_stored st v Hr Hm) as [st0 [c0 (Hc & Ho & Hd & Hres & Hv)]].
    exists st0, c0. split; [exact Hc|]. split; [split; assumption|].
    destruct (plain_results_are_prescribed_c P HP Hnd st0 c0 out Hc (conj Ho Hd) Hres) as (Hk & _ & Hp). rewrite Hv in Hk. auto.
  Qed.

  (* and it does not depend on the schedule *)
  Theorem plain_returned_value_is_schedule_independent st1 st2 v1 v2 :
    reachable P st1 -> main_state st1 = Some (TDone (SVal v1)) ->
    reachable P st2 -> main_state st2 = Some (TDone (SVal v2)) -> v1 = v2.
  Proof.
    intros Hr1 Hm1 Hr2 Hm2.
    destruct (returned_value_was_stored st1 v1 Hr1 Hm1) as [s1 [c1 (Hc1 & Ho1 & Hd1 & Hres1 & Hv1)]].
    destruct (returned_value_was_stored st2 v2 Hr2 Hm2) as [s2 [c2 (Hc2 & Ho2 & Hd2 & Hres2 & Hv2)]].
    rewrite <- Hv1, <- Hv2.
    exact (plain_results_are_schedule_independent_c P HP Hnd Htopo s1 c1 s2 c2 Hc1 (conj Ho1 Hd1) Hc2 (conj Ho2 Hd2) out Hres1 Hres2).
  Qed.
End OutcomeTheorems.
