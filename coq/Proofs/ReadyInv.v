(* Ready-queue consistency, for every program and schedule: a task whose state is Ready is in the ready queue, so a
   state with an empty queue has no runnable task (the loop is really idle), and a task that was made ready will run. *)
From MLPE Require Import Engine.Run Proofs.ExecLemmas Proofs.Evolve.

(* every task other than [t] (the one being executed, whose table entry is stale) that is Ready is queued *)
Definition rcx (t : option tid) (st : mstate) : Prop :=
  forall t' x, Some t' <> t -> find_task t' (st_tasks st) = Some x ->
               match t_state x with TReady _ _ => In t' (st_ready st) | _ => True end.

Lemma rcx_same t st st' : st_tasks st' = st_tasks st -> st_ready st' = st_ready st -> rcx t st -> rcx t st'.
Proof. unfold rcx. intros -> ->. auto. Qed.

Lemma rcx_emit_obs t o st : rcx t st -> rcx t (emit_obs o st). Proof. apply rcx_same; reflexivity. Qed.
Lemma rcx_with_store t f st : rcx t st -> rcx t (with_store f st). Proof. apply rcx_same; reflexivity. Qed.
Lemma rcx_bump t c st : rcx t st -> rcx t (bump c st). Proof. apply rcx_same; reflexivity. Qed.
Lemma rcx_set_adddata t k v st : rcx t st -> rcx t (set_adddata k v st). Proof. apply rcx_same; reflexivity. Qed.
Lemma rcx_set_waiters t w st : rcx t st -> rcx t (set_waiters w st). Proof. apply rcx_same; reflexivity. Qed.
Lemma rcx_add_event t n st : rcx t st -> rcx t (add_event n st). Proof. apply rcx_same; reflexivity. Qed.
Lemma rcx_push_ready t t' st : rcx t st -> rcx t (push_ready t' st).
Proof.
  unfold rcx. intros H t'' x Hn Hx. specialize (H t'' x Hn Hx). cbn [push_ready st_tasks st_ready] in *.
  destruct (t_state x); try exact I. apply in_or_app. left. exact H.
Qed.

Lemma find_set_tstate t' t ts (st : mstate) x :
  find_task t' (st_tasks (set_tstate t ts st)) = Some x ->
  (t' = t /\ exists y, find_task t (st_tasks st) = Some y /\ x = with_ts y ts) \/ (t' <> t /\ find_task t' (st_tasks st) = Some x).
Proof.
  unfold set_tstate. cbn [st_tasks]. intros H. destruct (Nat.eq_dec t' t) as [->|Hne].
  - left. split; [reflexivity|]. destruct (find_task t (st_tasks st)) as [y|] eqn:F.
    + rewrite (find_upd_same t _ _ y) in H by (reflexivity || exact F). inversion H. eauto.
    + rewrite find_upd_none in H by (reflexivity || exact F). discriminate.
  - right. split; [exact Hne|]. rewrite find_upd_other in H by (reflexivity || exact Hne). exact H.
Qed.

(* making a task Ready and queueing it *)
Lemma rcx_ready_push t t' k sg st : rcx t st -> rcx t (push_ready t' (set_tstate t' (TReady k sg) st)).
Proof.
  unfold rcx. intros H t'' x Hn Hx. cbn [push_ready st_tasks st_ready] in *.
  change (st_tasks (set_tstate t' (TReady k sg) st)) with (st_tasks (set_tstate t' (TReady k sg) st)) in Hx.
  apply find_set_tstate in Hx. destruct Hx as [[-> [y [Hy ->]]]|[Hne Hx]].
  - cbn. apply in_or_app. right. left. reflexivity.
  - specialize (H t'' x Hn Hx). destruct (t_state x); try exact I. cbn. apply in_or_app. left. exact H.
Qed.

Lemma rcx_yield t k sg st : rcx (Some t) st -> rcx None (push_ready t (set_tstate t (TReady k sg) st)).
Proof.
  unfold rcx. intros H t'' x _ Hx. cbn [push_ready st_tasks st_ready] in *.
  apply find_set_tstate in Hx. destruct Hx as [[-> [y [Hy ->]]]|[Hne Hx]].
  - cbn. apply in_or_app. right. left. reflexivity.
  - assert (Hn : Some t'' <> Some t) by congruence. specialize (H t'' x Hn Hx). destruct (t_state x); try exact I.
    cbn. apply in_or_app. left. exact H.
Qed.

Lemma rcx_park t ts st :
  (match ts with TReady _ _ => False | _ => True end) -> rcx (Some t) st -> rcx None (set_tstate t ts st).
Proof.
  unfold rcx. intros Hts H t'' x _ Hx. apply find_set_tstate in Hx. destruct Hx as [[-> [y [Hy ->]]]|[Hne Hx]].
  - cbn. destruct ts; try exact I. contradiction.
  - assert (Hn : Some t'' <> Some t) by congruence. exact (H t'' x Hn Hx).
Qed.

Lemma rcx_wake t t' sg st : rcx t st -> rcx t (wake t' sg st).
Proof.
  intros H. unfold wake. destruct (find_task t' (st_tasks st)) as [[i nm [k s|w k|r] h]|]; try exact H.
  apply rcx_ready_push. exact H.
Qed.

Lemma rcx_wake_all t w sg st : rcx t st -> rcx t (wake_all w sg st).
Proof.
  intros H. unfold wake_all.
  assert (G : forall l s, rcx t s -> rcx t (fold_left (fun s (p : wait * tid) => wake (snd p) sg s) l s)).
  { induction l as [|p r IH]; intros s Hs; cbn [fold_left]; [exact Hs|]. apply IH, rcx_wake, Hs. }
  apply G, rcx_set_waiters, H.
Qed.

Lemma rcx_notify t c st : rcx t st -> rcx t (notify c st). Proof. apply rcx_wake_all. Qed.
Lemma rcx_notify_keys t ks st : rcx t st -> rcx t (notify_keys ks st).
Proof. unfold notify_keys. revert st; induction ks as [|k r IH]; intros st H; cbn [fold_left]; [exact H|]. apply IH, rcx_notify, H. Qed.
Lemma rcx_set_event t n st : rcx t st -> rcx t (set_event n st).
Proof. intros H. change (set_event n st) with (wake_all (WEvent n) SGo (add_event n st)). apply rcx_wake_all, rcx_add_event, H. Qed.

Lemma rcx_cancel_task t t' st : rcx t st -> rcx t (cancel_task t' st).
Proof.
  intros H. unfold cancel_task. destruct (find_task t' (st_tasks st)) as [[i nm [k s|w k|r] h]|] eqn:F; try exact H.
  - unfold rcx in *. intros t'' x Hn Hx. apply find_set_tstate in Hx. destruct Hx as [[-> [y [Hy ->]]]|[Hne Hx]].
    + cbn. rewrite F in Hy. inversion Hy; subst. exact (H t' _ Hn F).
    + exact (H t'' x Hn Hx).
  - apply rcx_ready_push. apply rcx_set_waiters. exact H.
Qed.
Lemma rcx_cancel_tasks t ts st : rcx t st -> rcx t (cancel_tasks ts st).
Proof. unfold cancel_tasks. revert st; induction ts as [|t' r IH]; intros st H; cbn [fold_left]; [exact H|]. apply IH, rcx_cancel_task, H. Qed.
Lemma rcx_finally_a t n st : rcx t st -> rcx t (finally_a n st).
Proof. intros H. unfold finally_a. apply rcx_notify, rcx_set_event, H. Qed.
Lemma rcx_finally_b P t d n st : rcx t st -> rcx t (finally_b P d n st).
Proof.
  intros H. unfold finally_b. destruct (key_eqb n (d_dst d)).
  - apply rcx_notify, rcx_notify, rcx_notify_keys, rcx_set_event, H.
  - apply rcx_notify, rcx_notify_keys, rcx_set_event, H.
Qed.
Lemma rcx_fold_hide t (l : list key) st : rcx t st -> rcx t (fold_left (fun s k => emit_obs (OHide k) s) l st).
Proof. revert st; induction l as [|k r IH]; intros st H; cbn [fold_left]; [exact H|]. apply IH, rcx_emit_obs, H. Qed.

Lemma find_task_app t (l1 l2 : list (task frame)) :
  find_task t (l1 ++ l2) = match find_task t l1 with Some x => Some x | None => find_task t l2 end.
Proof. induction l1 as [|y r IH]; cbn [app find_task]; [reflexivity|]. destruct (Nat.eqb (t_id y) t); [reflexivity|exact IH]. Qed.

Lemma rcx_spawn t nm h k st : rcx t st -> rcx t (fst (spawn nm h k st)).
Proof.
  unfold rcx, spawn. cbn [fst st_tasks st_ready]. intros H t' x Hn Hx. rewrite find_task_app in Hx.
  destruct (find_task t' (st_tasks st)) as [y|] eqn:F.
  - inversion Hx; subst. specialize (H t' x Hn F). destruct (t_state x); try exact I. apply in_or_app. left. exact H.
  - cbn [find_task t_id] in Hx. destruct (Nat.eqb (st_next st) t') eqn:E; [|discriminate]. inversion Hx; subst. cbn.
    apply in_or_app. right. left. apply Nat.eqb_eq. exact E.
Qed.

Ltac rcx_prims :=
  repeat first
         [ assumption
         | apply rcx_notify | apply rcx_notify_keys | apply rcx_set_event | apply rcx_cancel_tasks | apply rcx_cancel_task
         | apply rcx_finally_a | apply rcx_finally_b | apply rcx_emit_obs | apply rcx_with_store | apply rcx_bump
         | apply rcx_set_adddata | apply rcx_push_ready | apply rcx_fold_hide | apply rcx_wake_all | apply rcx_spawn ].

Section Ready.
  Variable P : prog.

  Lemma rcx_step_frame t0 t fr sg st : rcx t0 st -> rcx t0 (fst (step_frame P t fr sg st)).
  Proof.
    intros H. destruct fr; destruct sg; cbn [step_frame]; unfold default_or_raise, reduced;
      repeat break_match; spawn_norm; cbn [fst]; rcx_prims.
  Qed.

  Lemma rcx_abort st : rcx None (abort P st).
  Proof.
    intros t' x _ Hx. unfold abort in Hx. cbn [st_tasks] in Hx. revert Hx. generalize (st_tasks st).
    induction l as [|z l IH]; cbn [map find_task t_id]; [discriminate|].
    destruct (Nat.eqb (t_id z) t'); [intros Hx; inversion Hx; exact I|exact IH].
  Qed.

  Lemma rcx_exec fuel t k sg st : rcx (Some t) st -> rcx None (exec P fuel t k sg st).
  Proof.
    intros H0. apply (exec_rule P t (fun _ _ s => rcx (Some t) s) (rcx None)); [| |exact H0].
    - intros sg' s H. apply rcx_park; [exact I|exact H].
    - intros fr rest sg' s H. split; [apply rcx_abort|].
      pose proof (rcx_step_frame (Some t) t fr sg' s H) as H1.
      destruct (step_frame P t fr sg' s) as [st1 [w k'|k'|k' sg''|sg'']]; cbn [fst] in *; try exact H1.
      + unfold suspend. apply rcx_set_waiters. apply rcx_park; [exact I|exact H1].
      + apply rcx_yield. exact H1.
  Qed.

  Lemma rcx_dequeue st t rest : st_ready st = t :: rest -> rcx None st -> rcx (Some t) (dequeue st).
  Proof.
    unfold rcx. intros E H t' x Hn Hx. cbn [dequeue st_tasks st_ready] in *. assert (Hn' : Some t' <> None) by discriminate.
    specialize (H t' x Hn' Hx). rewrite E in *. cbn [tl]. destruct (t_state x); try exact I.
    destruct H as [->|H]; [congruence|exact H].
  Qed.

  Theorem reachable_ready_consistent : forall st, reachable P st -> rcx None st.
  Proof.
    apply (reachable_inv P (rcx None)).
    - intros t' x _ Hx. unfold init_state, spawn in *. cbn in *. destruct t'; [|discriminate]. inversion Hx. cbn. left. reflexivity.
    - intros st _ H. rewrite loop_step_unfold. destruct (st_ready st) as [|t rest] eqn:E; [exact H|].
      pose proof (rcx_dequeue st t rest E H) as Hd.
      assert (Hstale : forall x, find_task t (st_tasks st) = Some x -> (match t_state x with TReady _ _ => False | _ => True end) ->
                                 rcx None (dequeue st)).
      { intros x Hx Hns t' y _ Hy. destruct (Nat.eq_dec t' t) as [->|Hne].
        - cbn [dequeue st_tasks] in Hy. rewrite Hx in Hy. inversion Hy; subst. destruct (t_state y); try exact I. contradiction.
        - apply Hd; [congruence|exact Hy]. }
      destruct (find_task t (st_tasks st)) as [x|] eqn:F.
      + destruct (t_state x) as [k sg|w k|r] eqn:T.
        * apply rcx_exec. exact Hd.
        * apply (Hstale x eq_refl). rewrite T. exact I.
        * apply (Hstale x eq_refl). rewrite T. exact I.
      + intros t' y _ Hy. destruct (Nat.eq_dec t' t) as [->|Hne].
        * cbn [dequeue st_tasks] in Hy. rewrite F in Hy. discriminate.
        * apply Hd; [congruence|exact Hy].
    - intros st g _ H. unfold complete_gate. apply rcx_wake_all. exact H.
    - intros st _ H. apply rcx_cancel_task. exact H.
  Qed.

  (* a state in which some task is Ready is not idle: in particular it is not a deadlock *)
  Corollary ready_task_not_deadlocked st t x k sg :
    reachable P st -> find_task t (st_tasks st) = Some x -> t_state x = TReady k sg -> deadlocked st = false.
  Proof.
    intros Hr Hx Ht. pose proof (reachable_ready_consistent st Hr t x) as H. rewrite Ht in H.
    assert (Hin : In t (st_ready st)) by (apply H; [discriminate|exact Hx]).
    unfold deadlocked. destruct (st_ready st); [contradiction|reflexivity].
  Qed.
End Ready.
