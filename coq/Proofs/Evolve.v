(* What only ever grows along an execution: task identities (id, name, helper flag) are never changed and new tasks
   are appended with fresh ids; the trace is only extended; set events stay set. *)
From MLPE Require Import Engine.Run Proofs.ExecLemmas.

Definition ident (x : task frame) : tid * tname * bool := (t_id x, t_name x, t_helper x).

Definition tr_id (tr : tid * tname * bool) : nat := fst (fst tr).

Record evolves (st st' : mstate) : Prop := {
  ev_tasks : exists new, map ident (st_tasks st') = map ident (st_tasks st) ++ new
                         /\ Forall (fun tr => st_next st <= tr_id tr < st_next st') new
                         /\ NoDup (map tr_id new);
  ev_next : st_next st <= st_next st';
  ev_trace : exists new, st_trace st' = new ++ st_trace st;
  ev_events : forall n, event_is_set n st = true -> event_is_set n st' = true
}.

Lemma NoDup_app_intro {A} (a b : list A) :
  NoDup a -> NoDup b -> (forall x, In x a -> In x b -> False) -> NoDup (a ++ b).
Proof.
  intros Ha Hb Hd. induction a as [|x r IH]; cbn [app]; [exact Hb|]. inversion Ha; subst. constructor.
  - intros Hin. apply in_app_or in Hin. destruct Hin as [Hin|Hin]; [contradiction|]. apply (Hd x); [left; reflexivity|exact Hin].
  - apply IH; [assumption|]. intros y Hy. apply Hd. right. exact Hy.
Qed.

Lemma map_ident_upd t ts (l : list (task frame)) :
  map ident (upd_task t (fun x => {| t_id := t_id x; t_name := t_name x; t_state := ts; t_helper := t_helper x |}) l) = map ident l.
Proof.
  induction l as [|y r IH]; cbn [upd_task map]; [reflexivity|].
  destruct (Nat.eqb (t_id y) t); cbn [map]; [reflexivity|]. rewrite IH. reflexivity.
Qed.

Lemma evolves_refl st : evolves st st.
Proof.
  constructor.
  - exists []. rewrite app_nil_r. split; [reflexivity|split; constructor].
  - lia.
  - exists []. reflexivity.
  - auto.
Qed.

Lemma evolves_trans a b c : evolves a b -> evolves b c -> evolves a c.
Proof.
  intros [[n1 [T1 [F1 D1]]] N1 [r1 R1] E1] [[n2 [T2 [F2 D2]]] N2 [r2 R2] E2]. constructor.
  - exists (n1 ++ n2). rewrite T2, T1, app_assoc. split; [reflexivity|]. split.
    + apply Forall_app. split.
      * eapply Forall_impl; [|exact F1]. cbn. intros x Hx. lia.
      * eapply Forall_impl; [|exact F2]. cbn. intros x Hx. lia.
    + rewrite map_app. apply NoDup_app_intro; [exact D1|exact D2|].
      intros i H1 H2. apply in_map_iff in H1. destruct H1 as [x1 [<- H1]]. apply in_map_iff in H2. destruct H2 as [x2 [E H2]].
      rewrite Forall_forall in F1, F2. specialize (F1 _ H1). specialize (F2 _ H2). cbv beta in F1, F2. lia.
  - lia.
  - exists (r2 ++ r1). rewrite R2, R1, app_assoc. reflexivity.
  - auto.
Qed.

(* a primitive that leaves tasks, next, trace and events alone *)
Lemma evolves_same st st' :
  st_tasks st' = st_tasks st -> st_next st' = st_next st -> st_trace st' = st_trace st -> st_events st' = st_events st ->
  evolves st st'.
Proof.
  intros T N R E. constructor.
  - exists []. rewrite T, app_nil_r. split; [reflexivity|split; constructor].
  - lia.
  - exists []. rewrite R. reflexivity.
  - unfold event_is_set. rewrite E. auto.
Qed.

Lemma mem_add_set_mono (n k : key) l : mem key_eqb n l = true -> mem key_eqb n (add_set key_eqb k l) = true.
Proof.
  intros H. unfold add_set. destruct (mem key_eqb k l); [exact H|].
  induction l as [|x r IH]; cbn [mem app] in *; [discriminate|]. destruct (key_eqb n x); [reflexivity|]. apply IH. exact H.
Qed.

Section Inst.
  Variable P : prog.

  Lemma ev_emit_obs o st : evolves st (emit_obs o st).
  Proof.
    constructor; cbn.
    - exists []. rewrite app_nil_r. split; [reflexivity|split; constructor].
    - lia.
    - exists [o]. reflexivity.
    - auto.
  Qed.
  Lemma ev_with_store f st : evolves st (with_store f st). Proof. apply evolves_same; reflexivity. Qed.
  Lemma ev_bump c st : evolves st (bump c st). Proof. apply evolves_same; reflexivity. Qed.
  Lemma ev_set_adddata k v st : evolves st (set_adddata k v st). Proof. apply evolves_same; reflexivity. Qed.
  Lemma ev_push_ready t st : evolves st (push_ready t st). Proof. apply evolves_same; reflexivity. Qed.
  Lemma ev_set_waiters w st : evolves st (set_waiters w st). Proof. apply evolves_same; reflexivity. Qed.
  Lemma ev_dequeue st : evolves st (dequeue st). Proof. apply evolves_same; reflexivity. Qed.
  Lemma ev_set_tstate t ts st : evolves st (set_tstate t ts st).
  Proof.
    constructor; cbn.
    - exists []. rewrite app_nil_r, map_ident_upd. split; [reflexivity|split; constructor].
    - lia.
    - exists []. reflexivity.
    - auto.
  Qed.
  Lemma ev_spawn nm h k st : evolves st (fst (spawn nm h k st)).
  Proof.
    constructor; cbn.
    - exists [(st_next st, nm, h)]. rewrite map_app. split; [reflexivity|]. split.
      + constructor; [cbn; lia|constructor].
      + cbn. constructor; [intros []|constructor].
    - lia.
    - exists [OSpawn (st_next st) nm]. reflexivity.
    - auto.
  Qed.
  Lemma ev_add_event n st : evolves st (add_event n st).
  Proof.
    constructor; cbn.
    - exists []. rewrite app_nil_r. split; [reflexivity|split; constructor].
    - lia.
    - exists []. reflexivity.
    - intros k. unfold event_is_set. cbn. apply mem_add_set_mono.
  Qed.
  Lemma ev_abort st : evolves st (abort P st).
  Proof.
    constructor; cbn.
    - exists []. rewrite app_nil_r, map_map. split; [reflexivity|split; constructor].
    - lia.
    - exists []. reflexivity.
    - auto.
  Qed.

  Definition ev_step_frame := R_step_frame P evolves evolves_refl evolves_trans ev_emit_obs ev_with_store ev_bump ev_set_adddata
                                           ev_push_ready ev_set_waiters ev_set_tstate ev_spawn ev_add_event.
  Definition ev_action := R_action P evolves evolves_refl evolves_trans ev_emit_obs ev_with_store ev_bump ev_set_adddata
                                   ev_push_ready ev_set_waiters ev_set_tstate ev_spawn ev_add_event ev_dequeue ev_abort.
  Definition ev_sched := R_sched P evolves evolves_refl evolves_trans ev_emit_obs ev_with_store ev_bump ev_set_adddata
                                 ev_push_ready ev_set_waiters ev_set_tstate ev_spawn ev_add_event ev_dequeue ev_abort.
  Definition ev_reachable := R_reachable P evolves evolves_refl evolves_trans ev_emit_obs ev_with_store ev_bump ev_set_adddata
                                         ev_push_ready ev_set_waiters ev_set_tstate ev_spawn ev_add_event ev_dequeue ev_abort.
  Definition ev_exec := R_exec P evolves evolves_refl evolves_trans ev_emit_obs ev_with_store ev_bump ev_set_adddata
                               ev_push_ready ev_set_waiters ev_set_tstate ev_spawn ev_add_event ev_abort.

  (* consequences for reachable states *)
  Lemma reachable_next st : reachable P st -> 1 <= st_next st.
  Proof. intros H. pose proof (ev_next _ _ (ev_reachable st H)) as N. cbn in N. exact N. Qed.

  Lemma reachable_main_first st :
    reachable P st -> exists x rest, st_tasks st = x :: rest /\ ident x = (main_tid, TNMain, false).
  Proof.
    intros H. destruct (ev_tasks _ _ (ev_reachable st H)) as [new [E _]]. cbn in E.
    destruct (st_tasks st) as [|x rest]; [discriminate|]. cbn in E. inversion E as [[E1 E2 E3 E4]]. exists x, rest. split; [reflexivity|].
    unfold ident, main_tid. rewrite E1, E2, E3. reflexivity.
  Qed.

  Lemma reachable_find_main st :
    reachable P st -> exists x, find_task main_tid (st_tasks st) = Some x /\ t_helper x = false /\ t_id x = main_tid.
  Proof.
    intros H. destruct (reachable_main_first st H) as [x [rest [E I]]]. exists x. unfold ident in I. inversion I as [[I1 I2 I3]].
    rewrite E. cbn [find_task]. rewrite I1. cbn. auto.
  Qed.

  (* every task other than the first has an id >= 1 *)
  Lemma reachable_ids st x :
    reachable P st -> In x (st_tasks st) -> t_id x < st_next st.
  Proof.
    intros H Hx. destruct (ev_tasks _ _ (ev_reachable st H)) as [new [E [F _]]]. cbn in E, F.
    apply (in_map ident) in Hx. rewrite E in Hx. destruct Hx as [Hx|Hx].
    - unfold ident in Hx. inversion Hx. pose proof (reachable_next st H). lia.
    - rewrite Forall_forall in F. specialize (F _ Hx). cbn in F. lia.
  Qed.

  (* whatever has evolved from the initial state: the first task is the one running PipelineChart.run, it alone has
     id 0, and task ids are pairwise distinct *)
  Lemma evolved_shape st :
    evolves (init_state) st ->
    exists x rest, st_tasks st = x :: rest /\ t_id x = main_tid /\ t_helper x = false
                   /\ Forall (fun y => t_id y <> main_tid) rest /\ NoDup (map t_id (st_tasks st)) /\ 1 <= st_next st.
  Proof.
    intros H. destruct (ev_tasks _ _ H) as [new [E [F D]]]. pose proof (ev_next _ _ H) as N. cbn in E, F, N.
    destruct (st_tasks st) as [|x rest] eqn:T; [discriminate|]. cbn [map] in E. unfold ident at 1 3 in E. cbn [t_id t_name t_helper] in E. injection E as E1 E2 E3 E4.
    exists x, rest. split; [reflexivity|]. split; [exact E1|]. split; [exact E3|].
    assert (Hids : map t_id rest = map tr_id new).
    { rewrite <- E4, map_map. reflexivity. }
    split; [|split; [|exact N]].
    - rewrite Forall_forall. intros y Hy Hc. apply (in_map t_id) in Hy. rewrite Hids in Hy.
      apply in_map_iff in Hy. destruct Hy as [tr [Htr Hin]]. rewrite Forall_forall in F. specialize (F _ Hin). cbn in F.
      unfold main_tid in Hc. lia.
    - cbn [map]. constructor; [|rewrite Hids; exact D]. rewrite E1, Hids. intros Hin.
      apply in_map_iff in Hin. destruct Hin as [tr [Htr Hin]]. rewrite Forall_forall in F. specialize (F _ Hin). cbn in F. lia.
  Qed.
End Inst.
