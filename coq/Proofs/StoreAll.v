(* ALL programs, every schedule: every result in the storage was put there by a logged store operation, and the value
   PipelineChart.run returns is the stored result of the output node (C01): it returns nothing that no node produced. *)
From MLPE Require Import Engine.Run Proofs.ExecLemmas Proofs.Evolve Proofs.StackInv Proofs.Micro Proofs.PlainLive Proofs.PlainCore Proofs.PlainInv
     Proofs.PlainExec Proofs.PlainPipe Proofs.PipeAll Proofs.QuietAll Proofs.AssocLemmas.
Require Import Lia.

Definition Istore (st : mstate) : Prop :=
  forall n v, alookup key_eqb n (s_results (st_store st)) = Some v -> In (OSetResult n v) (st_trace st).
Definition Ir (st st' : mstate) : Prop := Istore st -> Istore st'.

Lemma Ir_refl st : Ir st st. Proof. intros H. exact H. Qed.
Lemma Ir_trans a b c : Ir a b -> Ir b c -> Ir a c. Proof. unfold Ir. auto. Qed.
Lemma Ir_same st st' : st_store st' = st_store st -> st_trace st' = st_trace st -> Ir st st'.
Proof. intros E1 E2 H n v. rewrite E1, E2. apply H. Qed.
Lemma Ir_bump c st : Ir st (bump c st). Proof. apply Ir_same; reflexivity. Qed.
Lemma Ir_set_adddata k v st : Ir st (set_adddata k v st). Proof. apply Ir_same; reflexivity. Qed.
Lemma Ir_push_ready t st : Ir st (push_ready t st). Proof. apply Ir_same; reflexivity. Qed.
Lemma Ir_set_waiters w st : Ir st (set_waiters w st). Proof. apply Ir_same; reflexivity. Qed.
Lemma Ir_set_tstate t ts st : Ir st (set_tstate t ts st). Proof. apply Ir_same; reflexivity. Qed.
Lemma Ir_add_event n st : Ir st (add_event n st). Proof. apply Ir_same; reflexivity. Qed.
Lemma Ir_emit o st : Ir st (emit_obs o st).
Proof. intros H n v Hl. right. apply H. exact Hl. Qed.
Lemma Ir_spawn nm h k st : Ir st (fst (spawn nm h k st)).
Proof. intros H n v Hl. right. apply H. exact Hl. Qed.
Lemma Ir_keep (f : storage -> storage) st : (forall s, s_results (f s) = s_results s) -> Ir st (with_store f st).
Proof. intros Hf H n v Hl. cbn [with_store st_store st_trace] in *. rewrite Hf in Hl. apply H. exact Hl. Qed.
Lemma res_set_processed k s : s_results (set_processed k s) = s_results s. Proof. reflexivity. Qed.
Lemma res_hide1 k s : s_results (hide1 k s) = s_results s. Proof. reflexivity. Qed.
Lemma res_hide_all ks s : s_results (hide_all ks s) = s_results s.
Proof. unfold hide_all. revert s. induction ks as [|k r IH]; intros s; cbn [fold_left]; [reflexivity|]. rewrite IH. reflexivity. Qed.
Lemma res_set_switch k l c s : s_results (set_switch k l c s) = s_results s. Proof. reflexivity. Qed.
Lemma res_set_active p b s : s_results (set_active p b s) = s_results s. Proof. reflexivity. Qed.
Lemma Ir_set_result n v st : Ir st (emit_obs (OSetResult n v) (with_store (set_result n v) st)).
Proof.
  intros H n' v' Hl. cbn [emit_obs with_store st_store st_trace set_result s_results] in *.
  destruct (key_eqb n' n) eqn:E.
  - apply key_eqb_spec in E. subst n'. rewrite (alookup_aset_same key_eqb key_eqb_spec) in Hl. inversion Hl. left. reflexivity.
  - right. apply H. rewrite (alookup_aset_other key_eqb key_eqb_spec) in Hl; [exact Hl|]. intros ->. rewrite key_eqb_refl in E. discriminate E.
Qed.
Definition Ir_notify := R_notify Ir Ir_trans Ir_push_ready Ir_set_waiters Ir_set_tstate.
Definition Ir_wake_all := R_wake_all Ir Ir_trans Ir_push_ready Ir_set_waiters Ir_set_tstate.
Definition Ir_notify_keys := R_notify_keys Ir Ir_trans Ir_push_ready Ir_set_waiters Ir_set_tstate.
Definition Ir_set_event := R_set_event Ir Ir_trans Ir_push_ready Ir_set_waiters Ir_set_tstate Ir_add_event.
Definition Ir_cancel_task := R_cancel_task Ir Ir_trans Ir_push_ready Ir_set_waiters Ir_set_tstate.
Definition Ir_cancel_tasks := R_cancel_tasks Ir Ir_trans Ir_push_ready Ir_set_waiters Ir_set_tstate.
Definition Ir_finally_a := R_finally_a Ir Ir_trans Ir_push_ready Ir_set_waiters Ir_set_tstate Ir_add_event.
Definition Ir_finally_b P := R_finally_b P Ir Ir_trans Ir_push_ready Ir_set_waiters Ir_set_tstate Ir_add_event.
Lemma Ir_fold_hide (l : list key) st0 st : Ir st0 st -> Ir st0 (fold_left (fun s k => emit_obs (OHide k) s) l st).
Proof. revert st. induction l as [|k r IH]; intros st H; cbn [fold_left]; [exact H|]. apply IH. eapply Ir_trans; [exact H|]. apply Ir_emit. Qed.

Ltac ir_prims :=
  repeat first
         [ apply Ir_refl
         | apply Ir_notify | apply Ir_notify_keys | apply Ir_set_event | apply Ir_cancel_tasks | apply Ir_cancel_task
         | apply Ir_finally_a | apply Ir_finally_b | apply Ir_wake_all | apply Ir_fold_hide
         | (eapply Ir_trans; [|apply Ir_set_result])
         | (eapply Ir_trans; [|apply Ir_bump]) | (eapply Ir_trans; [|apply Ir_set_adddata]) | (eapply Ir_trans; [|apply Ir_push_ready])
         | (eapply Ir_trans; [|apply Ir_spawn]) | (eapply Ir_trans; [|apply Ir_emit])
         | (eapply Ir_trans; [|apply Ir_keep; first [apply res_set_processed | apply res_hide1 | apply res_hide_all | apply res_set_switch | apply res_set_active]]) ].

Section StoreAll.
  Variable P : prog.

  Lemma step_Ir t fr sg st : Ir st (fst (step_frame P t fr sg st)).
  Proof.
    destruct fr; destruct sg; cbn [step_frame]; unfold default_or_raise, reduced; repeat break_match; spawn_norm; cbn [fst]; ir_prims.
  Qed.

  Theorem creach_store : forall st c, creach P st c -> Istore st.
  Proof.
    intros st c H.
    induction H as [|st t rest x k sg H IH Hq Hf Ht|st t rest H IH Hq|st t fr rest sg H IH|st t sg H IH|st c H IH|st g H IH|st H IH].
    - intros n v Hl. cbn in Hl. discriminate Hl.
    - exact IH.
    - exact IH.
    - pose proof (step_Ir t fr sg st IH) as H1. intros n v Hl. rewrite trace_after_step'.
      assert (Es : st_store (fst (after_step t rest (step_frame P t fr sg st))) = st_store (fst (step_frame P t fr sg st)))
        by (destruct (step_frame P t fr sg st) as [st1 [w k'|k'|k' sg'|sg']]; reflexivity).
      rewrite Es in Hl. exact (H1 n v Hl).
    - exact IH.
    - exact IH.
    - unfold complete_gate. exact (Ir_wake_all _ _ st st (Ir_refl st) IH).
    - exact (Ir_cancel_task _ st st (Ir_refl st) IH).
  Qed.
End StoreAll.

Lemma exists_result_lookup k s : exists_result k s = true -> alookup key_eqb k (s_results s) = Some (get_result k true s).
Proof.
  unfold exists_result, get_result, get_result_opt. cbn [negb andb]. destruct (mem key_eqb k (s_res_hidden s)); [discriminate|].
  destruct (alookup key_eqb k (s_results s)); [reflexivity|discriminate].
Qed.

Section Returned.
  Variable P : prog.
  Notation out := (b_output (build (p_decls P) (p_inp P) (p_out P))).
  Hypothesis Hnf : forall m ev n k, p_mgr_fault P m ev n k = false.

  Definition stored (tr : list obs) (v : value) : Prop := In (OSetResult out v) tr.
  Definition vr_ok (tr : list obs) (k : list frame) (sg : option signal) : Prop :=
    (forall v, In (FChartAfterEmitOk v) k -> stored tr v) /\
    match k with FChartAfterRun :: _ => forall v, sg = Some (SVal v) -> stored tr v | _ => True end.
  Definition vr_ts (tr : list obs) (ts : tstate frame) : Prop :=
    match ts with
    | TReady k sg => vr_ok tr k (Some sg)
    | TWait _ k => vr_ok tr k None
    | TDone (SVal v) => stored tr v
    | TDone _ => True
    end.

  Lemma stored_mono new tr v : stored tr v -> stored (new ++ tr) v.
  Proof. intros H. apply in_or_app. right. exact H. Qed.
  Lemma vr_ok_mono new tr k sg : vr_ok tr k sg -> vr_ok (new ++ tr) k sg.
  Proof.
    intros [A B]. split; [intros v Hv; apply stored_mono; exact (A v Hv)|]. destruct k as [|f r]; [exact I|]. destruct f; try exact I.
    intros v Hv. apply stored_mono. exact (B v Hv).
  Qed.
  Lemma vr_ts_mono new tr ts : vr_ts tr ts -> vr_ts (new ++ tr) ts.
  Proof. destruct ts as [k sg|w k|r]; cbn [vr_ts]; try apply vr_ok_mono. destruct r; try exact (fun x => x). apply stored_mono. Qed.

  Ltac shape H :=
    repeat (cbn [mk] in H; try contradiction;
            match type of H with context [match ?x with _ => _ end] => destruct x end); cbn [mk] in H; try contradiction.

  Lemma main_step_ret js jc pay t fr rest sg st :
    main_ok P js jc pay (TReady (fr :: rest) sg) -> handled fr sg = true -> vr_ok (st_trace st) (fr :: rest) (Some sg) -> Istore st ->
    vr_ts (st_trace (fst (step_frame P t fr sg st))) (nstate rest (snd (step_frame P t fr sg st))).
  Proof.
    intros [Hnr H] Hh [Hv Hs] HI. cbn [main_ok] in *. shape H;
      repeat match goal with H0 : _ /\ _ |- _ => destruct H0 end; subst;
      destruct sg as [|v0| |e0|e0]; try discriminate Hh; try (exfalso; exact (Hnr e0 eq_refl));
      try match goal with r : bool |- context [FEmit _ _ _ _ _ ?r] => destruct r end;
      cbn [step_frame]; rewrite ?Hnf; unfold reduced; repeat break_match; spawn_norm;
      cbn [fst snd nstate app vr_ts vr_ok emit_frames]; autorewrite with core; cbn [st_trace emit_obs bump with_store spawn fst];
      try exact I;
      try (split; [intros v1 Hin; repeat (destruct Hin as [Hin|Hin]; [try discriminate Hin; inversion Hin; subst; first [solve [apply Hs; reflexivity] | solve [right; apply Hv; cbn; auto] | solve [apply Hv; cbn; auto]]|]); try contradiction
                  |try exact I; intros v1 Hc; try discriminate Hc]);
      try solve [apply Hv; cbn; auto | right; apply Hv; cbn; auto].
    (* manager.run returns the output's result *)
    all: try (inversion Hc; subst v1; right; apply HI;
              apply exists_result_lookup;
              match goal with Hp : run_pred _ ?s = true, He : task_errors ?s = [] |- _ => unfold run_pred in Hp; rewrite He in Hp; cbn in Hp; exact Hp end).
  Qed.
End Returned.

Section ReturnedInv.
  Variable P : prog.
  Notation out := (b_output (build (p_decls P) (p_inp P) (p_out P))).
  Hypothesis Hnf : forall m ev n k, p_mgr_fault P m ev n k = false.

  Definition TPr (tr : list obs) (x : task frame) : Prop := t_id x = main_tid -> vr_ts P tr (t_state x).

  Lemma vr_ok_sig tr k s s' : (forall v, s' <> Some (SVal v)) -> vr_ok P tr k s -> vr_ok P tr k s'.
  Proof. intros Hs [A B]. split; [exact A|]. destruct k as [|f r]; [exact I|]. destruct f; try exact I. intros v Hv. exfalso. exact (Hs v Hv). Qed.
  Lemma TPr_wake tr x w k : t_state x = TWait w k -> TPr tr x -> TPr tr (with_ts x (TReady k SGo)).
  Proof. unfold TPr. intros E H Hn. cbn in *. specialize (H Hn). rewrite E in H. cbn [vr_ts] in *. eapply vr_ok_sig; [|exact H]. intros v Hv. discriminate Hv. Qed.
  Lemma TPr_cancel_ready tr x k sg : t_state x = TReady k sg -> TPr tr x -> TPr tr (with_ts x (TReady k (SThrow XCancelled))).
  Proof. unfold TPr. intros E H Hn. cbn in *. specialize (H Hn). rewrite E in H. cbn [vr_ts] in *. eapply vr_ok_sig; [|exact H]. intros v Hv. discriminate Hv. Qed.
  Lemma TPr_cancel_wait tr x w k : t_state x = TWait w k -> TPr tr x -> TPr tr (with_ts x (TReady k (SThrow XCancelled))).
  Proof. unfold TPr. intros E H Hn. cbn in *. specialize (H Hn). rewrite E in H. cbn [vr_ts] in *. eapply vr_ok_sig; [|exact H]. intros v Hv. discriminate Hv. Qed.
  Lemma TPr_spawn tr i nm f : 1 <= i -> spawn_frame f = true -> TPr tr {| t_id := i; t_name := nm; t_state := TReady [f] SGo; t_helper := true |}.
  Proof. unfold TPr, main_tid. cbn. intros. lia. Qed.
  Lemma TPr_mono new tr st : tasks_ok (TPr tr) st -> tasks_ok (TPr (new ++ tr)) st.
  Proof. unfold tasks_ok. apply Forall_impl. intros x Hx Hid. apply vr_ts_mono. exact (Hx Hid). Qed.

  Lemma tasks_TPr_set tr ts st : NoDup (map (@t_id frame) (st_tasks st)) -> vr_ts P tr ts -> tasks_ok (TPr tr) (set_tstate main_tid ts st).
  Proof.
    intros Hnd Hm. unfold tasks_ok. rewrite Forall_forall. intros y Hy Hid.
    unfold set_tstate in Hy. cbn [st_tasks] in Hy. rewrite (upd_task_state main_tid ts (st_tasks st) y Hy Hid Hnd). exact Hm.
  Qed.
  Lemma tasks_TPr_other tr t ts st : t <> main_tid -> tasks_ok (TPr tr) st -> tasks_ok (TPr tr) (set_tstate t ts st).
  Proof.
    intros Hne H. apply ok_set_tstate; [exact H|]. intros y Hy _ Hid. cbn in Hid. destruct (find_task_in _ _ _ Hy) as [_ Hiy]. exfalso. apply Hne. rewrite <- Hiy. exact Hid.
  Qed.

  Theorem creach_returned : forall st c, creach P st c ->
    match c with
    | Some (t, k, sg) => if Nat.eqb t main_tid then vr_ts P (st_trace st) (cstate k sg) else tasks_ok (TPr (st_trace st)) st
    | None => tasks_ok (TPr (st_trace st)) st
    end.
  Proof.
    intros st c H.
    induction H as [|st t rest x k sg H IH Hq Hf Ht|st t rest H IH Hq|st t fr rest sg H IH|st t sg H IH|st c H IH|st g H IH|st H IH].
    - unfold tasks_ok, init_state. cbn. constructor; [|constructor]. intros _. cbn. split; [intros v [Hc|[]]; discriminate Hc|exact I].
    - cbn in IH. destruct (find_task_in _ _ _ Hf) as [Hin Hid]. unfold tasks_ok in IH. rewrite Forall_forall in IH.
      destruct (Nat.eqb_spec t main_tid) as [->|Hne].
      + pose proof (IH x Hin Hid) as Hx. rewrite Ht in Hx.
        destruct (creach_stacks P _ _ H) as [Hs _]. unfold stacks_ok, tasks_ok in Hs. rewrite Forall_forall in Hs.
        destruct (Hs x Hin) as [_ Hxx]. rewrite Ht in Hxx. destruct Hxx as [[Hk _] _]. destruct k; [contradiction|exact Hx].
      + unfold tasks_ok. rewrite Forall_forall. exact IH.
    - exact IH.
    - pose proof (creach_evolves P _ _ H) as Hev. pose proof (ev_next _ _ Hev) as Hn1. cbn in Hn1.
      pose proof (ev_step_frame P t fr sg st) as Hevs.
      assert (Hnd1 : NoDup (map (@t_id frame) (st_tasks (fst (step_frame P t fr sg st))))).
      { destruct (evolved_shape _ (evolves_trans _ _ _ Hev Hevs)) as [xa [ra [_ [_ [_ [_ [Hnd _]]]]]]]. exact Hnd. }
      destruct (creach_pipeG P Hnf _ _ H) as [js [jc [pay [_ [_ HT]]]]].
      pose proof (creach_store P _ _ H) as HI.
      destruct (ev_trace _ _ Hevs) as [new Etr].
      rewrite trace_after_step'.
      destruct (Nat.eqb_spec t main_tid) as [->|Hne].
      + destruct HT as [HM Hty]. cbn [cstate typed_ts] in HM, Hty, IH.
        pose proof (main_step_ret P Hnf js jc pay main_tid fr rest sg st HM Hty IH HI) as Hx'.
        destruct (step_frame P main_tid fr sg st) as [st1 [w k'|k'|k' sg'|sg']]; cbn [after_step fst snd nstate] in *.
        * unfold suspend. apply (tasks_ok_same _ (set_tstate main_tid (TWait w (k' ++ rest)) st1)); [reflexivity|]. apply tasks_TPr_set; assumption.
        * apply (tasks_ok_same _ (set_tstate main_tid (TReady (k' ++ rest) SGo) st1)); [reflexivity|]. apply tasks_TPr_set; assumption.
        * rewrite Nat.eqb_refl. exact Hx'.
        * rewrite Nat.eqb_refl. exact Hx'.
      + assert (HT1 : tasks_ok (TPr (st_trace (fst (step_frame P t fr sg st)))) (fst (step_frame P t fr sg st))).
        { apply (step_frame_tasks_ok P (TPr _) (TPr_wake _) (TPr_cancel_ready _) (TPr_cancel_wait _) (TPr_spawn _)); [exact Hn1|].
          rewrite Etr. apply TPr_mono. exact IH. }
        destruct (step_frame P t fr sg st) as [st1 [w k'|k'|k' sg'|sg']]; cbn [after_step fst snd] in *.
        * unfold suspend. apply (tasks_ok_same _ (set_tstate t (TWait w (k' ++ rest)) st1)); [reflexivity|]. apply tasks_TPr_other; assumption.
        * apply (tasks_ok_same _ (set_tstate t (TReady (k' ++ rest) SGo) st1)); [reflexivity|]. apply tasks_TPr_other; assumption.
        * apply Nat.eqb_neq in Hne. rewrite Hne. exact HT1.
        * apply Nat.eqb_neq in Hne. rewrite Hne. exact HT1.
    - pose proof (creach_evolves P _ _ H) as Hev. destruct (evolved_shape _ Hev) as [xa [ra [_ [_ [_ [_ [Hnd _]]]]]]].
      destruct (Nat.eqb_spec t main_tid) as [->|Hne].
      + cbn [cstate] in IH. apply tasks_TPr_set; assumption.
      + apply tasks_TPr_other; assumption.
    - unfold tasks_ok, abort. cbn [st_tasks]. rewrite Forall_forall. intros y Hy. apply in_map_iff in Hy. destruct Hy as [x [<- _]]. intros _. cbn. exact I.
    - unfold complete_gate. rewrite trace_wake_all. apply (complete_gate_tasks_ok (TPr _) (TPr_wake _)). exact IH.
    - rewrite trace_cancel_task. apply (ok_cancel_task (TPr _) (TPr_cancel_ready _) (TPr_cancel_wait _)). exact IH.
  Qed.
End ReturnedInv.

Theorem returned_value_is_the_stored_result_of_the_output_all_programs P :
  (forall m ev n k, p_mgr_fault P m ev n k = false) ->
  forall st v, reachable P st -> main_state st = Some (TDone (SVal v)) ->
    In (OSetResult (b_output (build (p_decls P) (p_inp P) (p_out P))) v) (st_trace st).
Proof.
  intros Hnf st v Hr Hm. pose proof (creach_returned P Hnf st None (reachable_creach P st Hr)) as HT. cbn in HT.
  unfold main_state in Hm. destruct (find_task main_tid (st_tasks st)) as [x|] eqn:F; [|discriminate Hm]. cbn in Hm. inversion Hm as [Es].
  destruct (find_task_in _ _ _ F) as [Hin Hid]. unfold tasks_ok in HT. rewrite Forall_forall in HT. pose proof (HT x Hin Hid) as Hx. rewrite Es in Hx. exact Hx.
Qed.
