(* Values, exceptions, node keys. Strings (parameter names, labels, string results) are interned
   as natural numbers by the harness; id order = lexicographic order of the names of one program. *)
From MLPE Require Export Base.Util.

(* Exception classes the generated node bodies raise, plus the two built-in roots. *)
Inductive exc_cls := EA | EB | EC | BX | EExc | EBase.

Definition exc_cls_eqb (a b : exc_cls) : bool :=
  match a, b with
  | EA, EA | EB, EB | EC, EC | BX, BX | EExc, EExc | EBase, EBase => true
  | _, _ => false
  end.

(* issub c d : class c is d or a subclass of d  (EB < EA < Exception < BaseException; EC < Exception; BX < BaseException) *)
Definition issub (c d : exc_cls) : bool :=
  match c, d with
  | _, EBase => true
  | EA, EA | EB, EB | EC, EC | BX, BX | EExc, EExc => true
  | EB, EA => true
  | EA, EExc | EB, EExc | EC, EExc => true
  | _, _ => false
  end.

Inductive key := KN (i : nat) | KSw (i j : nat) | KOo (i j : nat).

Definition key_eqb (a b : key) : bool :=
  match a, b with
  | KN i, KN i' => Nat.eqb i i'
  | KSw i j, KSw i' j' => Nat.eqb i i' && Nat.eqb j j'
  | KOo i j, KOo i' j' => Nat.eqb i i' && Nat.eqb j j'
  | _, _ => false
  end.

Lemma key_eqb_spec a b : key_eqb a b = true <-> a = b.
Proof.
  destruct a, b; simpl; try (split; [discriminate|congruence]);
    rewrite ?andb_true_iff, ?Nat.eqb_eq; split; try congruence;
    try (intros [? ?]; congruence); intros H; inversion H; auto.
Qed.

Lemma key_eqb_refl a : key_eqb a a = true.
Proof. apply key_eqb_spec; reflexivity. Qed.

Lemma key_eqb_neq a b : key_eqb a b = false <-> a <> b.
Proof.
  split; intros H.
  - intros E. apply key_eqb_spec in E. congruence.
  - destruct (key_eqb a b) eqn:E; [|reflexivity]. apply key_eqb_spec in E. contradiction.
Qed.

(* Engine-level errors (documented ones and internal artefacts). *)
Inductive eerr :=
| EOneOfNoResult | ERecNoResult | ESwitchNoBranch     (* documented "no result" errors *)
| EInternal                                            (* KeyError / AttributeError / ... : an artefact *)
| EArtifactExists                                      (* raised by a write-once store *)
| EPoolNotReady                                        (* RuntimeError of the pool registries *)
| EOutOfFuel.                                          (* model-only: interpreter fuel exhausted *)

Inductive exn :=
| XNode (c : exc_cls) (i a : nat)      (* raised by the body of node i at attempt a (0-based) *)
| XEng (e : eerr) (k : key)
| XMgr (k : nat)                        (* raised by an event-manager callback (class EA) *)
| XStore (k : nat)                      (* raised by the artifact store's fault plan (class EA) *)
| XCancelled.                           (* asyncio.CancelledError *)

(* isinstance(e, Exception) *)
Definition is_Exception (e : exn) : bool :=
  match e with
  | XNode c _ _ => issub c EExc
  | XEng _ _ => true
  | XMgr _ => true
  | XStore _ => true
  | XCancelled => false
  end.

Definition exn_class (e : exn) : exc_cls :=
  match e with
  | XNode c _ _ => c
  | XEng _ _ => EExc
  | XMgr _ => EA
  | XStore _ => EA
  | XCancelled => EBase
  end.

Definition pname := nat.
Definition additional_data_name : pname := 0.   (* the harness interns 'additional_data' as 0 *)

Inductive value :=
| VInt (z : Z)
| VStr (s : nat)
| VNone
| VNode (i : nat) (args : list (pname * value))   (* ordinary result of node i: its identity and arguments *)
| VDef (i : nat) (args : list (pname * value))    (* get_default called with args, node i *)
| VRec (data : value)                              (* Recurrent(data): next_iteration marker *)
| VExn (e : exn).                                  (* an exception object kept as a value *)

Definition kwargs := list (pname * value).

Definition is_rec (v : value) : bool := match v with VRec _ => true | _ => false end.
Definition is_exn (v : value) : bool := match v with VExn _ => true | _ => false end.

(* Largest integer additional_data occurring anywhere in a value (0 if none). *)
Fixpoint find_epoch (v : value) : nat :=
  let fix go (l : list (pname * value)) : nat :=
      match l with
      | [] => 0
      | (p, x) :: r =>
        Nat.max (match x with
                 | VInt z => if Nat.eqb p additional_data_name then Z.to_nat z else 0
                 | _ => 0
                 end)
                (Nat.max (find_epoch x) (go r))
      end in
  match v with
  | VNode _ args => go args
  | VDef _ args => go args
  | VRec d => find_epoch d
  | _ => 0
  end.

Fixpoint find_epoch_kw (l : kwargs) : nat :=
  match l with
  | [] => 0
  | (p, x) :: r =>
    Nat.max (match x with
             | VInt z => if Nat.eqb p additional_data_name then Z.to_nat z else 0
             | _ => 0
             end)
            (Nat.max (find_epoch x) (find_epoch_kw r))
  end.

(* Canonical order of keyword arguments: by interned name. *)
Fixpoint kw_insert (p : pname) (v : value) (l : kwargs) : kwargs :=
  match l with
  | [] => [(p, v)]
  | (q, w) :: r =>
    if Nat.ltb p q then (p, v) :: l
    else if Nat.eqb p q then (p, v) :: r           (* dict semantics: later binding wins *)
    else (q, w) :: kw_insert p v r
  end.

(* What one invocation of a node body produces. *)
Inductive outcome := OVal (v : value) | ORaise (c : exc_cls).
