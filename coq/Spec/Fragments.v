(* Decidable program-shape predicates: fragment hypotheses of the theorems and, negated, the trigger
   predicates of the known findings (DESIGN 3.4 / 3.6). Written once, used by both. *)
From MLPE Require Export Spec.Dataflow.

Section Frag.
  Variable ds : decls.
  Let n := length ds.
  Let inp := 0.
  Let out := Nat.pred n.

  Definition all_marks : list (nat * nat * mark) :=
    flat_map (fun i => let ps := ns_params (spec_of ds i) in
                       map (fun jp => (i, fst jp, snd (snd jp))) (combine (seq 0 (length ps)) ps)) (seq 0 n).

  Definition live : list nat := dedup Nat.eqb (ancestors ds inp n out).
  Definition live_marks : list (nat * nat * mark) := filter (fun m => mem Nat.eqb (fst (fst m)) live) all_marks.

  Definition is_plain_mark (mk : mark) : bool := match mk with MIn _ => true | _ => false end.

  (* Plain: only Input marks (and un-marked nodes) among the nodes the output needs *)
  Definition frag_plain : bool := forallb (fun m => is_plain_mark (snd m)) live_marks.

  Definition has_switch : bool := existsb (fun m => match snd m with MSw _ _ => true | _ => false end) live_marks.
  Definition has_oneof : bool := existsb (fun m => match snd m with MOneOf _ => true | _ => false end) live_marks.
  Definition has_rec : bool := existsb (fun m => match snd m with MRec _ _ _ => true | _ => false end) live_marks.

  (* D13 family: two parameters of one node bound to the same source node *)
  Definition mark_sources (mk : mark) : list nat :=
    match mk with
    | MIn m => [m]
    | MRec _ d _ => [d]
    | _ => []
    end.
  Definition dup_source : bool :=
    existsb (fun i => let srcs := flat_map (fun pm => mark_sources (snd pm)) (ns_params (spec_of ds i)) in
                      negb (Nat.eqb (length srcs) (length (dedup Nat.eqb srcs)))) live.
  (* a switch whose decider is one of its own cases, or duplicate labels / case nodes *)
  Definition odd_switch : bool :=
    existsb (fun m => match snd m with
                      | MSw d cases => mem Nat.eqb d (map snd cases)
                                       || negb (Nat.eqb (length cases) (length (dedup Nat.eqb (map fst cases))))
                                       || negb (Nat.eqb (length cases) (length (dedup Nat.eqb (map snd cases))))
                      | _ => false
                      end) live_marks.

  Definition candidates : list nat :=
    flat_map (fun m => match snd m with MOneOf cs => cs | _ => [] end) live_marks.

  (* every reference to node x other than as a candidate of one one-of *)
  Definition refs_to (x : nat) : nat :=
    length (filter (fun m => mem Nat.eqb x (mark_deps (snd m))) live_marks).

  (* D17: a one-of candidate that something else also refers to (another parameter, another one-of,
     another candidate's sub-pipeline), or the input node used as a candidate *)
  Definition shared_candidate : bool :=
    existsb (fun c => negb (Nat.eqb (refs_to c) 1) || Nat.eqb c inp) candidates
    || negb (Nat.eqb (length candidates) (length (dedup Nat.eqb candidates))).

  (* D11: a switch inside the sub-pipeline of a one-of candidate *)
  Definition switch_in_candidate : bool :=
    existsb (fun c => existsb (fun a => existsb (fun pm => match snd pm with MSw _ _ => true | _ => false end)
                                                (ns_params (spec_of ds a)))
                              (dedup Nat.eqb (ancestors ds inp n c))) candidates.

  Definition rec_marks : list (nat * nat * nat) :=
    flat_map (fun m => match snd m with MRec s d mx => [(s, d, mx)] | _ => [] end) live_marks.

  (* conflicting recurrent declarations for one destination *)
  Definition rec_conflict : bool :=
    existsb (fun a => existsb (fun b => Nat.eqb (snd (fst a)) (snd (fst b))
                                        && negb (Nat.eqb (fst (fst a)) (fst (fst b)) && Nat.eqb (snd a) (snd b)))
                              rec_marks) rec_marks.
  (* start must be a proper ancestor of the destination *)
  Definition rec_bad_start : bool :=
    existsb (fun r => let '(s, d, _) := r in
                      Nat.eqb s d || negb (depends_on ds inp n d s)) rec_marks.

  (* D9: a node outside the start->dest paths reads a path node other than the destination *)
  Definition rec_outside_reader : bool :=
    existsb (fun r => let '(s, d, _) := r in
                      let P := rec_path ds inp s d in
                      existsb (fun x => negb (mem Nat.eqb x P)
                                        && existsb (fun y => mem Nat.eqb y P && negb (Nat.eqb y d)) (node_deps' ds inp x))
                              live) rec_marks.
  (* D12: switch / one-of / another recurrent mark inside a recurrent path *)
  Definition rec_nonplain_inside : bool :=
    existsb (fun r => let '(s, d, _) := r in
                      existsb (fun x => existsb (fun pm => negb (is_plain_mark (snd pm))) (ns_params (spec_of ds x)))
                              (rec_path ds inp s d)) rec_marks.
  (* overlapping / nested recurrent subgraphs *)
  Definition rec_overlap : bool :=
    existsb (fun a => existsb (fun b => negb (Nat.eqb (snd (fst a)) (snd (fst b)))
                                        && existsb (fun x => mem Nat.eqb x (rec_path ds inp (fst (fst b)) (snd (fst b))))
                                                   (rec_path ds inp (fst (fst a)) (snd (fst a))))
                              rec_marks) rec_marks.
  (* a recurrent destination or inner node inside a one-of candidate / switch case sub-pipeline *)
  Definition rec_in_scope : bool :=
    existsb (fun r => let '(s, d, _) := r in
                      existsb (fun c => mem Nat.eqb d (ancestors ds inp n c)) candidates
                      || existsb (fun m => match snd m with
                                           | MSw _ cases => existsb (fun lc => mem Nat.eqb d (ancestors ds inp n (snd lc))) cases
                                           | _ => false
                                           end) live_marks) rec_marks.
  (* the destination is the output node (it has no consumer) *)
  Definition rec_dest_is_output : bool := existsb (fun r => Nat.eqb (snd (fst r)) out) rec_marks.

  Definition wf_basic : bool := negb dup_source && negb odd_switch && negb rec_conflict && negb rec_bad_start
                                && negb rec_dest_is_output && mem Nat.eqb inp live.

  (* fragments *)
  Definition frag_Plain : bool := wf_basic && frag_plain.
  Definition frag_Sw : bool := wf_basic && negb has_oneof && negb has_rec.
  Definition frag_OneOfX : bool := wf_basic && negb has_rec && negb shared_candidate && negb switch_in_candidate.
  Definition frag_RecWN : bool :=
    wf_basic && negb shared_candidate && negb switch_in_candidate
    && negb rec_outside_reader && negb rec_nonplain_inside && negb rec_overlap && negb rec_in_scope.
End Frag.
