(* Reference semantics: the declared dependency graph evaluated as a pure dataflow program
   (DESIGN 3.3). Independent of the engine model: works on declarations, not on the built graph. *)
From MLPE Require Export Pure.Builder.

(* Root causes of a failed evaluation. *)
Inductive cause :=
| CNode (c : exc_cls) (i a : nat)      (* node i raised class c at attempt a and that was its final failure *)
| COneOf (i j : nat)                   (* every candidate of the one-of parameter j of node i failed *)
| CRec (d : nat)                       (* recurrent destination d exhausted its iterations without a result *)
| CSwitch (i j : nat).                 (* the switch of parameter j of node i got a label without a case *)

Inductive res := ROk (v : value) | RFail (cs : list cause).

(* A BaseException outside Exception is not a failure the engine handles: it is neither retried nor
   defaulted (C12), and no one-of contains it: it propagates out of run (C05 "a propagated BaseException"). *)
Definition fatal_cause (c : cause) : bool :=
  match c with CNode cl _ _ => negb (issub cl EExc) | _ => false end.

(* One execution of a node in the reference semantics. *)
Record exec_rec := { x_node : nat; x_kw : kwargs; x_attempts : nat; x_default : bool; x_result : res }.

Record estate := {
  e_memo : list (nat * res);
  e_ad : list (nat * value);           (* additional_data per recurrent start node *)
  e_log : list exec_rec                (* newest first *)
}.
Definition estate0 : estate := {| e_memo := []; e_ad := []; e_log := [] |}.

Section Eval.
  Variable ds : decls.
  Variable body : nat -> kwargs -> nat -> outcome.
  Variable input : kwargs.
  Variable inp : nat.

  Definition spec_of (i : nat) : nspec :=
    match nth_opt ds i with
    | Some nd => nd
    | None => {| ns_params := []; ns_mode := MGated; ns_attempts := None; ns_delay := None; ns_excs := None;
                 ns_default := false |}
    end.

  Definition r_attempts (nd : nspec) : Z :=
    match ns_attempts nd with Some a => if Z.eqb a 0 then 1%Z else a | None => 1%Z end.
  Definition r_excs (nd : nspec) : list exc_cls :=
    match ns_excs nd with Some [] => [EExc] | Some l => l | None => [EExc] end.

  (* The retry / default rule (documented behaviour; Pure/Retry.v relates the engine's loop to it).
     Returns (result, number of body invocations, default used). *)
  Fixpoint retry_eval (fuel : nat) (i : nat) (kw : kwargs) (att : nat) : res * nat * bool :=
    let nd := spec_of i in
    match body i kw att with
    | OVal v => (ROk v, S att, false)
    | ORaise c =>
      let fin := if ns_default nd then (ROk (VDef i kw), S att, true) else (RFail [CNode c i att], S att, false) in
      if existsb (issub c) (r_excs nd) then
        if Z.eqb (Z.of_nat (S att)) (r_attempts nd) then fin
        else match fuel with
             | O => fin
             | S f => retry_eval f i kw (S att)
             end
      else if issub c EExc then fin
           else (RFail [CNode c i att], S att, false)
    end.

  (* declared recurrent attributes of a destination: (start, max_iterations) from any RecurrentSubGraph mark *)
  Definition rec_attr (d : nat) : option (nat * nat) :=
    let marks := flat_map (fun nd => flat_map (fun pm => match snd pm with
                                                          | MRec s d' mx => if Nat.eqb d d' then [(s, mx)] else []
                                                          | _ => []
                                                          end) (ns_params nd)) ds in
    match marks with x :: _ => Some x | [] => None end.

  Definition mark_deps (mk : mark) : list nat :=
    match mk with
    | MIn m => [m]
    | MSw d cases => d :: map snd cases
    | MOneOf cs => cs
    | MRec _ d _ => [d]
    end.
  Definition node_deps (i : nat) : list nat := flat_map (fun pm => mark_deps (snd pm)) (ns_params (spec_of i)).
  (* an un-marked node other than the input node depends on the input node *)
  Definition node_deps' (i : nat) : list nat :=
    match ns_params (spec_of i) with
    | [] => if Nat.eqb i inp then [] else [inp]
    | _ => node_deps i
    end.

  (* nodes from which [d] is reachable through declared dependencies (d included) *)
  Fixpoint ancestors (fuel : nat) (d : nat) : list nat :=
    match fuel with
    | O => [d]
    | S f => d :: flat_map (ancestors f) (node_deps' d)
    end.
  Definition depends_on (fuel : nat) (x s : nat) : bool := mem Nat.eqb s (ancestors fuel x).
  (* nodes on dependency paths s -> d *)
  Definition rec_path (s d : nat) : list nat :=
    let n := length ds in
    filter (fun x => depends_on n x s) (dedup Nat.eqb (ancestors n d)).

  Definition merge_fail (a b : res) : res :=
    match a, b with
    | RFail x, RFail y => RFail (x ++ y)
    | RFail x, _ => RFail x
    | _, RFail y => RFail y
    | ROk _, ROk _ => a
    end.

  Definition memo_get (i : nat) (st : estate) : option res := alookup Nat.eqb i (e_memo st).
  Definition memo_set (i : nat) (r : res) (st : estate) : estate :=
    {| e_memo := aset Nat.eqb i r (e_memo st); e_ad := e_ad st; e_log := e_log st |}.
  Definition memo_drop (ks : list nat) (st : estate) : estate :=
    {| e_memo := filter (fun p => negb (mem Nat.eqb (fst p) ks)) (e_memo st); e_ad := e_ad st; e_log := e_log st |}.
  Definition ad_set (s : nat) (v : value) (st : estate) : estate :=
    {| e_memo := e_memo st; e_ad := aset Nat.eqb s v (e_ad st); e_log := e_log st |}.
  Definition log_add (x : exec_rec) (st : estate) : estate :=
    {| e_memo := e_memo st; e_ad := e_ad st; e_log := x :: e_log st |}.

  Definition with_ad (i : nat) (kw : kwargs) (st : estate) : kwargs :=
    match alookup Nat.eqb i (e_ad st) with
    | Some VNone => kw
    | Some v => kw_insert additional_data_name v kw
    | None => kw
    end.

  (* eval_node: raw evaluation of node i (may yield a Recurrent marker);
     resolved: what a consumer of node i receives (iterates a recurrent destination to its final value). *)
  Fixpoint eval_node (fuel : nat) (i : nat) (st : estate) : estate * res :=
    match memo_get i st with
    | Some r => (st, r)
    | None =>
      match fuel with
      | O => (st, RFail [])
      | S f =>
        let resolved (m : nat) (st : estate) : estate * res :=
            let '(st1, r) := eval_node f m st in
            match rec_attr m with
            | None => (st1, r)
            | Some (s, mx) =>
              let fix iter (k : nat) (st : estate) (r : res) : estate * res :=
                  match r with
                  | ROk (VRec data) =>
                    match k with
                    | O =>
                      (* iterations exhausted *)
                      if ns_default (spec_of m) then
                        let kw := match find (fun x => Nat.eqb (x_node x) m) (e_log st) with
                                  | Some x => x_kw x
                                  | None => []
                                  end in
                        let r' := ROk (VDef m kw) in
                        (memo_set m r' (log_add {| x_node := m; x_kw := kw; x_attempts := 0; x_default := true;
                                                   x_result := r' |} st), r')
                      else let r' := RFail [CRec m] in (memo_set m r' st, r')
                    | S k' =>
                      let st2 := memo_drop (rec_path s m) (ad_set s data st) in
                      let '(st3, r3) := eval_node f m st2 in
                      iter k' st3 r3
                    end
                  | _ => (st, r)
                  end in
              iter mx st1 r
            end in
        let nd := spec_of i in
        (* all parameters are evaluated, whether or not an earlier one failed (the engine starts them concurrently) *)
        let step (acc : estate * kwargs * res * nat) (pm : pname * mark) : estate * kwargs * res * nat :=
            let '(st, kw, bad, j) := acc in
            let '(st', r) :=
                match snd pm with
                | MIn m => resolved m st
                | MRec _ d _ => resolved d st
                | MSw d cases =>
                  let '(st1, rd) := resolved d st in
                  match rd with
                  | RFail cs => (st1, RFail cs)
                  | ROk lbl =>
                    match lbl with
                    | VStr l =>
                      match fold_left (fun a lc => if Nat.eqb (fst lc) l then Some (snd lc) else a) cases None with
                      | Some c => resolved c st1
                      | None => (st1, RFail [CSwitch i j])
                      end
                    | _ => (st1, RFail [CSwitch i j])
                    end
                  end
                | MOneOf cs =>
                  let fix first (cs : list nat) (st : estate) : estate * res :=
                      match cs with
                      | [] => (st, RFail [COneOf i j])
                      | c :: rest =>
                        let '(st1, r) := resolved c st in
                        match r with
                        | ROk v => (st1, ROk v)
                        | RFail fc => if existsb fatal_cause fc then (st1, RFail fc) else first rest st1
                        end
                      end in
                  first cs st
                end in
            match r with
            | ROk v => (st', kw_insert (fst pm) v kw, bad, S j)
            | RFail cs => (st', kw, merge_fail bad (RFail cs), S j)
            end in
        let '(st1, kw0, bad, _) := fold_left step (ns_params nd) (st, [], ROk VNone, 0) in
        let '(st2, kw1, bad1) :=
            (* un-marked nodes other than the input node wait for the input node but take no argument from it *)
            match ns_params nd with
            | [] => if Nat.eqb i inp then (st1, input, bad)
                    else let '(s', r) := resolved inp st1 in
                         (s', kw0, match r with RFail cs => merge_fail bad (RFail cs) | _ => bad end)
            | _ => (st1, kw0, bad)
            end in
        match bad1 with
        | RFail cs => (memo_set i (RFail cs) st2, RFail cs)
        | ROk _ =>
          let kw := with_ad i kw1 st2 in
          let '(r, n, dflt) := retry_eval (Z.to_nat (r_attempts nd)) i kw 0 in
          let st3 := log_add {| x_node := i; x_kw := kw; x_attempts := n; x_default := dflt; x_result := r |} st2 in
          (memo_set i r st3, r)
        end
      end
    end.

  (* what the caller of PipelineChart.run receives *)
  Definition eval_output (out : nat) : estate * res :=
    let fuel := S (length ds) in
    let '(st1, r) := eval_node fuel out estate0 in
    match rec_attr out with
    | None => (st1, r)
    | Some _ => (st1, r)       (* an output node that is itself a recurrent destination has no consumer: raw value *)
    end.
End Eval.
