(* Several runs of one chart on one event loop (C07: one after the other; C08: overlapping).
   The repaired engine keeps all run-time state in the per-run manager (storage, tasks, conditions, events, additional
   data) and only READS the chart (graph, node map, node classes): in the model the chart is the immutable [prog] and a run
   is an [mstate]. What the runs share is the loop: one FIFO queue, whose effect on a single run is that its tasks get their
   steps in some interleaving with the steps of the other runs. The multi-run machine below is therefore the free
   interleaving of the per-run transition systems; every general theorem is proved for every schedule of a single run, hence
   for every such interleaving. Whether the real engine has other shared state is what the correspondence check of
   C07 / C08 examines (snapshots of graph / node map / classes / input dict, overlapping runs on one virtual loop). *)
From MLPE Require Export Engine.Run.

Section Multi.
  Variable P : prog.          (* the chart: shared, immutable *)

  (* an action of the multi-run machine: run #j performs a single-run action *)
  Definition maction := (nat * action)%type.

  Fixpoint upd_nth {A} (l : list A) (j : nat) (f : A -> A) : list A :=
    match l, j with
    | [], _ => []
    | x :: r, O => f x :: r
    | x :: r, S j' => x :: upd_nth r j' f
    end.

  Definition mapply (a : maction) (rs : list mstate) : list mstate := upd_nth rs (fst a) (apply_action P (snd a)).

  Definition mrun (k : nat) (sched : list maction) : list mstate :=
    fold_left (fun rs a => mapply a rs) sched (repeat (init_state) k).

  (* the schedule induced on run #j *)
  Definition induced (j : nat) (sched : list maction) : list action :=
    flat_map (fun a => if Nat.eqb (fst a) j then [snd a] else []) sched.
End Multi.
