(* Schedules, the run function, observations, the behaviour DSL and the default oracles. *)
From MLPE Require Export Engine.Manager.

Inductive action :=
| AStep                 (* one event-loop iteration *)
| AQuiesce              (* run until the ready queue is empty *)
| AGate (g : gate)      (* an external completion: body, timer, event callback, save *)
| ACancel.              (* the caller cancels the task running PipelineChart.run *)

Section Run.
  Variable P : prog.

  Fixpoint quiesce (fuel : nat) (st : mstate) : mstate :=
    match fuel with
    | O => st
    | S f => match st_ready st with [] => st | _ => quiesce f (loop_step P st) end
    end.

  Definition quiesce_fuel : nat := 4096.

  Definition apply_action (a : action) (st : mstate) : mstate :=
    match a with
    | AStep => loop_step P st
    | AQuiesce => quiesce quiesce_fuel st
    | AGate g => complete_gate g st
    | ACancel => cancel_task main_tid st
    end.

  Definition run_sched (sched : list action) : mstate := fold_left (fun s a => apply_action a s) sched (init_state).

  (* states reachable by any schedule *)
  Inductive reachable : mstate -> Prop :=
  | reach_init : reachable init_state
  | reach_step st a : reachable st -> reachable (apply_action a st).

  Lemma run_sched_reachable sched : reachable (run_sched sched).
  Proof.
    unfold run_sched. generalize (reach_init). generalize (init_state).
    induction sched as [|a r IH]; simpl; intros s H; [exact H|]. apply IH. constructor. exact H.
  Qed.

  Definition main_done (st : mstate) : bool :=
    match main_state st with Some (TDone _) => true | _ => false end.

  (* the exact deadlock verdict: nothing can move and the run is still pending *)
  Definition deadlocked (st : mstate) : bool :=
    match st_ready st with [] => true | _ => false end
    && match pending_gates st with [] => true | _ => false end
    && negb (main_done st).

  (* record, at every gate completion performed at a quiescent point, the set of outstanding gates *)
  Fixpoint run_collect (sched : list action) (st : mstate) (acc : list (list gate)) (missing : nat)
    : mstate * list (list gate) * nat :=
    match sched with
    | [] => (st, rev acc, missing)
    | a :: r =>
      let acc' := match a, st_ready st with
                  | AGate _, [] => pending_gates st :: acc
                  | _, _ => acc
                  end in
      let missing' := match a with
                      | AGate g => if mem gate_eqb g (pending_gates st) then missing else S missing
                      | _ => missing
                      end in
      run_collect r (apply_action a st) acc' missing'
    end.
End Run.

(* ---- behaviour DSL shared with the harness (progspec.py) ----------------------------------- *)
Inductive beh := BOk | BNone | BInt (z : Z) | BStr (s : nat) | BRecur (k : nat) | BRecEven (k : nat) | BStrEp (ls : list nat).
Record nbeh := { nb_beh : beh; nb_fails : list (option exc_cls) }.

Fixpoint last_or {A} (l : list A) (d : A) : A :=
  match l with [] => d | [x] => x | _ :: r => last_or r d end.

Definition fail_at (fails : list (option exc_cls)) (att : nat) : option exc_cls :=
  match nth_opt fails att with
  | Some x => x
  | None => last_or fails None
  end.

Definition dsl_body (bs : list nbeh) (i : nat) (kw : kwargs) (att : nat) : outcome :=
  match nth_opt bs i with
  | None => OVal (VNode i kw)
  | Some nb =>
    match fail_at (nb_fails nb) att with
    | Some c => ORaise c
    | None =>
      match nb_beh nb with
      | BOk => OVal (VNode i kw)
      | BNone => OVal VNone
      | BInt z => OVal (VInt z)
      | BStr s => OVal (VStr s)
      | BRecur k => let ep := find_epoch_kw kw in
                    if Nat.ltb ep k then OVal (VRec (VInt (Z.of_nat (S ep)))) else OVal (VNode i kw)
      (* a label that depends on the iteration: the ep-th of the list (the last one beyond its end) *)
      | BStrEp ls => OVal (VStr (nth (find_epoch_kw kw) ls (last ls 0)))
      (* asks for another iteration whenever the largest iteration number it can see is even (and below k): lets an
         inner recurrent subgraph iterate again in every pass of an outer one *)
      | BRecEven k => let ep := find_epoch_kw kw in
                      if Nat.even ep && Nat.ltb ep k then OVal (VRec (VInt (Z.of_nat (S ep)))) else OVal (VNode i kw)
      end
    end
  end.

(* ---- default oracles ------------------------------------------------------------------------ *)
(* default order oracle: exactly what networkx 3.x computes for topological_sort(view) = the generations of
   topological_generations flattened: the first generation is the zero-in-degree nodes in node order; the next one collects,
   scanning the current generation in order and each node's successors in adjacency (edge insertion) order, every child whose
   last unprocessed predecessor this was. *)
Definition dag_succs (g : graph) (d : rdag) (k : key) : list key :=
  flat_map (fun e => if key_eqb (fst (fst e)) k && in_dag d k && in_dag d (snd (fst e))
                        && (d_rec d || match ea_case (snd e) with Some _ => false | None => true end)
                     then [snd (fst e)] else []) (g_edges g).

Fixpoint nx_generation (g : graph) (d : rdag) (scan : list key) (indeg : list (key * nat)) (next : list key)
  : list (key * nat) * list key :=
  match scan with
  | [] => (indeg, next)
  | c :: r =>
    match alookup key_eqb c indeg with
    | Some (S O) => nx_generation g d r (aset key_eqb c O indeg) (next ++ [c])
    | Some (S m) => nx_generation g d r (aset key_eqb c m indeg) next
    | _ => nx_generation g d r indeg next
    end
  end.

Fixpoint kahn (fuel : nat) (g : graph) (d : rdag) (gen : list key) (indeg : list (key * nat)) (done : list key) : list key :=
  match fuel with
  | O => done ++ gen
  | S f =>
    match gen with
    | [] => done
    | _ => let '(indeg', next) := nx_generation g d (flat_map (dag_succs g d) gen) indeg [] in
           kahn f g d next indeg' (done ++ gen)
    end
  end.

Definition default_order (g : graph) (d : rdag) : list key :=
  let nodes := filter (fun k => in_dag d k) (node_keys g) in
  let indeg := map (fun k => (k, length (dag_preds g d k))) nodes in
  let zero := filter (fun k => Nat.eqb (length (dag_preds g d k)) 0) nodes in
  kahn (S (length nodes)) g d zero indeg [].

Definition order_oracle (g : graph) (tbl : list (rdag * list key)) (d : rdag) : list key :=
  match alookup rdag_eqb d tbl with
  | Some o => o
  | None => default_order g d
  end.

Definition succ_oracle (g : graph) (tbl : list (key * list key)) (k : key) : list key :=
  match alookup key_eqb k tbl with
  | Some o => o
  | None => dedup key_eqb (succs g k)
  end.

Definition mk_prog (ds : decls) (bs : list nbeh) (input : kwargs) (mgrs : nat) (mgr_gated : bool)
           (mgr_faults : list (evkind * option key * nat)) (store : store_kind) (store_gated : bool)
           (store_faults : list (key * nat)) (orders : list (rdag * list key)) (succ_orders : list (key * list key))
           (thr prc : bool) : prog :=
  let g := b_graph (build ds 0 (Nat.pred (length ds))) in
  {| p_decls := ds; p_inp := 0; p_out := Nat.pred (length ds);
     p_body := dsl_body bs; p_input := input; p_mgrs := mgrs; p_mgr_gated := mgr_gated;
     p_mgr_fault := fun _ ev n k => existsb (fun f => evkind_eqb (fst (fst f)) ev && okey_eqb (snd (fst f)) n && Nat.eqb (snd f) k) mgr_faults;
     p_store := store; p_store_gated := store_gated;
     p_store_fault := fun n k => existsb (fun f => key_eqb (fst f) n && Nat.eqb (snd f) k) store_faults;
     p_order := order_oracle g orders; p_succ_order := succ_oracle g succ_orders;
     p_thread_ready := thr; p_process_ready := prc; p_pick := fun _ => 0 |}.

(* the same program under another choice of the reported error among several failed tasks (index into task_errors) *)
Definition with_pick (P : prog) (j : nat) : prog :=
  {| p_decls := p_decls P; p_inp := p_inp P; p_out := p_out P; p_body := p_body P; p_input := p_input P; p_mgrs := p_mgrs P;
     p_mgr_gated := p_mgr_gated P; p_mgr_fault := p_mgr_fault P; p_store := p_store P; p_store_gated := p_store_gated P;
     p_store_fault := p_store_fault P; p_order := p_order P; p_succ_order := p_succ_order P;
     p_thread_ready := p_thread_ready P; p_process_ready := p_process_ready P; p_pick := fun _ => j |}.
