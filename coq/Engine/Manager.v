(* Operational model of dag/manager.py (DAGRunConcurrentManager), events.py and chart.py (PipelineChart.run)
   as continuation frames interpreted against the state of Engine/State.v.
   One constructor of [frame] per point at which a coroutine of the engine can be resumed. *)
From MLPE Require Export Engine.State Pure.Retry.

Inductive store_kind := StNone | StRecord | StWriteOnce.

Inductive frame :=
(* PipelineChart.run *)
| FChartStart
| FChartAfterStart
| FChartAfterRun
| FChartAfterEmitOk (v : value)
| FChartAfterEmitErr (e : exn)
(* EventSourceMixin._emit : about to call (or resumed from) the callback of manager [mgr] *)
| FEmit (ev : evkind) (n : option key) (err : option exn) (res : option value) (mgr : nat) (resumed : bool)
(* ArtifactStore.save *)
| FSave (n : key) (v : value) (resumed : bool) (k : nat)
(* DAGRunConcurrentManager.run *)
| FRunWait
(* _run_dag *)
| FDagStart (d : rdag)
| FDagLoop (d : rdag) (rest : list key) (locals : list tid)
| FDagFinal (d : rdag)
(* _run_switch *)
| FSwitchStart (d : rdag) (n : key)
| FSwitchAfter (n : key)
(* _run_oneof *)
| FOneOfLoop (d : rdag) (h : key) (rest : list key)
| FOneOfWait (d : rdag) (h c : key) (od : rdag) (rest : list key)
(* _run_node *)
| FNodeStart (d : rdag) (n : key) (force : bool)
| FNodeAfterExec (d : rdag) (n : key)
| FNodeAfterSave (d : rdag) (n : key) (unlock : bool)
(* _execute_node *)
| FExecStart (d : rdag) (n : key) (force : bool)
| FExecDup (n : key)
| FExecAfterStart (d : rdag) (n : key) (force : bool)
| FExecAfterBody (d : rdag) (n : key)
| FExecAfterOk (d : rdag) (n : key) (v : value)
| FExecAfterErr (d : rdag) (e : exn)
(* __execute_node : the retry loop; att = n_attempts (1-based) *)
| FRetry (i : nat) (force : bool) (kw : kwargs) (att : nat)
| FRetryAfterBody (i : nat) (kw : kwargs) (att : nat)
| FRetryAfterEmit (i : nat) (kw : kwargs) (att : nat)
| FRetryAfterSleep (i : nat) (kw : kwargs) (att : nat)
(* _run_recurrent_subgraph *)
| FRecStart (d : rdag) (n : key) (res : value)
| FRecLoop (d : rdag) (n s : key) (rsub : rdag) (remaining : nat) (res : value)
| FRecAfterIter (d : rdag) (n s : key) (rsub : rdag) (remaining : nat)
| FRecAfterDefault (s n : key).

Definition mstate := state frame.

(* Everything static about one run. The two library-dependent orders are oracles (DESIGN 3.2). *)
Record prog := {
  p_decls : decls;
  p_inp : nat;
  p_out : nat;
  p_body : nat -> kwargs -> nat -> outcome;     (* node, keyword arguments, attempt (0-based) *)
  p_input : kwargs;                              (* the caller's input_kwargs *)
  p_mgrs : nat;
  p_mgr_gated : bool;
  p_mgr_fault : nat -> evkind -> option key -> nat -> bool;
  p_store : store_kind;
  p_store_gated : bool;
  p_store_fault : key -> nat -> bool;
  p_order : rdag -> list key;                    (* nx.topological_sort of a reduced DAG *)
  p_succ_order : key -> list key;                (* nx.descendants_at_distance(graph, n, 1) as iterated *)
  p_thread_ready : bool;
  p_process_ready : bool;
  (* _get_first_error_in_tasks iterates a SET of Task objects: which of several failed helper tasks run() reports is not
     determined by the program (address order); the choice is an oracle like the two library orders above *)
  p_pick : list exn -> nat
}.

Definition pick_error (P : prog) (e : exn) (r : list exn) : exn := nth (p_pick P (e :: r)) (e :: r) e.
Lemma pick_error_in P e r : In (pick_error P e r) (e :: r).
Proof.
  unfold pick_error. destruct (Nat.ltb (p_pick P (e :: r)) (length (e :: r))) eqn:E.
  - apply nth_In. apply Nat.ltb_lt. exact E.
  - rewrite nth_overflow; [left; reflexivity|]. apply Nat.ltb_ge. exact E.
Qed.

Section Engine.
  Variable P : prog.
  Let B := build (p_decls P) (p_inp P) (p_out P).
  Let G := b_graph B.
  Let inp := b_input B.
  Let out := b_output B.

  Definition nspec_of (i : nat) : nspec :=
    match nth_opt (p_decls P) i with
    | Some nd => nd
    | None => {| ns_params := []; ns_mode := MGated; ns_attempts := None; ns_delay := None; ns_excs := None;
                 ns_default := false |}
    end.

  (* _is_executor_needed *)
  Definition needs_process : bool :=
    existsb (fun i => match ns_mode (nspec_of i) with MProcess => true | _ => false end) (b_map B).
  Definition needs_thread : bool :=
    existsb (fun i => match ns_mode (nspec_of i) with MInline | MThread => true | _ => false end) (b_map B).

  (* ---- reduced DAGs ----------------------------------------------------------------------- *)
  (* the view of _get_reduced_dag: case edges are dropped; a OneOf candidate is visible only as the
     destination of its own sub-DAG *)
  Definition filtered_view (oneof : bool) (dst : key) : view :=
    {| v_node_ok := fun k => (oneof && key_eqb k dst) || negb (is_child G k);
       v_edge_ok := fun ea => match ea_case ea with Some _ => false | None => true end |}.
  Definition full_view : view := {| v_node_ok := fun _ => true; v_edge_ok := fun _ => true |}.

  Definition reduced (st : mstate) (src dst : key) (oneof nested : bool) : mstate * rdag :=
    (st, {| d_nodes := path_nodes G (filtered_view oneof dst) src dst; d_src := src; d_dst := dst;
            d_rec := false; d_oneof := oneof; d_nested := nested |}).

  Definition rec_subgraph (s n : key) (oneof : bool) : rdag :=
    {| d_nodes := path_nodes G full_view s n; d_src := s; d_dst := n; d_rec := true; d_oneof := oneof;
       d_nested := false |}.

  (* ---- predicates -------------------------------------------------------------------------- *)
  Definition resolve_switch (s : storage) (p : key) : key :=
    if is_switch G p then match get_switch p s with Some (_, c) => c | None => p end else p.

  Definition ready_preds (d : rdag) (n : key) : list key :=
    if is_switch G n || is_head G n || d_rec d then dag_preds G d n else preds G n.

  Definition is_ready (s : storage) (d : rdag) (n : key) : bool :=
    forallb (fun p => let p' := resolve_switch s p in
                      exists_result p' s && negb (is_rec (get_result p' false s)))
            (ready_preds d n).

  (* __get_dependency_error: an error kept as the result of a (resolved) dependency *)
  Definition dep_error (s : storage) (d : rdag) (n : key) : option exn :=
    match filter (fun p => exists_error p s) (map (resolve_switch s) (ready_preds d n)) with
    | p :: _ => match get_result p false s with VExn e => Some e | _ => None end
    | [] => None
    end.

  Definition has_subgraph_error (s : storage) (d : rdag) : bool := existsb (fun k => exists_error k s) (d_nodes d).

  Definition run_pred (st : mstate) : bool :=
    negb (match task_errors st with [] => true | _ => false end) || exists_result out (st_store st).

  Definition oneof_pred (s : storage) (od : rdag) (c : key) : bool :=
    has_subgraph_error s od || (exists_result c s && negb (is_rec (get_result c false s))).

  (* __get_descendants *)
  Definition descendants (n : key) : list key :=
    let s := p_succ_order P n in
    s ++ flat_map (fun d => if is_switch G d
                            then let s2 := p_succ_order P d in
                                 s2 ++ flat_map (fun d2 => if is_switch G d2 then p_succ_order P d2 else []) s2
                            else []) s.

  Definition notify_keys (ks : list key) (st : mstate) : mstate :=
    fold_left (fun s k => notify (CNode k) s) ks st.

  (* _get_node_kwargs; None = an internal lookup error (switch without a result) *)
  Definition node_kwargs (st : mstate) (n : key) : option kwargs :=
    let s := st_store st in
    let base :=
        if key_eqb n inp then Some (p_input P)
        else fold_left (fun acc pe =>
                          match acc with
                          | None => None
                          | Some kw =>
                            match ea_kwarg (snd pe) with
                            | None => Some kw
                            | Some nm =>
                              if is_switch G (fst pe)
                              then match get_switch (fst pe) s with
                                   | Some (_, c) => Some (kw_insert nm (get_result c true s) kw)
                                   | None => None
                                   end
                              else Some (kw_insert nm (get_result (fst pe) true s) kw)
                            end
                          end) (preds_e G n) (Some []) in
    match base with
    | None => None
    | Some kw => match alookup key_eqb n (st_adddata st) with
                 | Some VNone => Some kw
                 | Some v => Some (kw_insert additional_data_name v kw)
                 | None => Some kw
                 end
    end.

  (* _add_case_result *)
  Definition switch_decider (n : key) : option key :=
    match filter (fun pe => ea_is_switch (snd pe)) (preds_e G n) with
    | pe :: _ => Some (fst pe)
    | [] => None
    end.
  Definition switch_case_for (n : key) (lbl : value) : option key :=
    match lbl with
    | VStr l =>
      (* dict semantics: a later edge with the same label overwrites an earlier one *)
      fold_left (fun acc pe => if ea_is_switch (snd pe) then acc
                               else match ea_case (snd pe) with
                                    | Some l' => if Nat.eqb l l' then Some (fst pe) else acc
                                    | None => acc
                                    end) (preds_e G n) None
    | _ => None
    end.

  Inductive directive :=
  | DSuspend (w : wait) (k : list frame)
  | DYield (k : list frame)                 (* asyncio.sleep(0) *)
  | DCont (k : list frame) (sg : signal)
  | DRet (sg : signal).

  Definition finally_a (n : key) (st : mstate) : mstate := notify (CNode n) (set_event n st).
  Definition finally_b (d : rdag) (n : key) (st : mstate) : mstate :=
    let st1 := set_event n st in
    let st2 := notify_keys (descendants n) st1 in
    let st3 := notify CRun st2 in
    if key_eqb n (d_dst d) then notify (CNode n) st3 else st3.

  Definition real_index (n : key) : nat := match n with KN i => i | _ => 0 end.

  Definition emit_frames (ev : evkind) (n : option key) (err : option exn) (res : option value) : frame :=
    FEmit ev n err res 0 false.

  Definition default_or_raise (i : nat) (kw : kwargs) (e : exn) (st : mstate) : mstate * directive :=
    if ns_default (nspec_of i)
    then (emit_obs (ODefault i kw) st, DRet (SVal (VDef i kw)))
    else (st, DRet (SThrow e)).

  Definition rec_data (v : value) : value := match v with VRec d => d | _ => VNone end.

  (* One resumption of the frame on top of a task's stack. *)
  Definition step_frame (t : tid) (fr : frame) (sg : signal) (st : mstate) : mstate * directive :=
    match fr, sg with
    (* ---------------- PipelineChart.run ---------------- *)
    | FChartStart, SGo => (st, DCont [emit_frames EvPipelineStart None None None; FChartAfterStart] SGo)
    | FChartAfterStart, SVal _ =>
      if (needs_thread && negb (p_thread_ready P)) || (needs_process && negb (p_process_ready P))
      then (st, DCont [FChartAfterRun] (SThrow (XEng EPoolNotReady inp)))
      else
        let '(st1, maind) := reduced st inp out false false in
        let '(st2, _) := spawn TNRun true [FDagStart maind] st1 in
        (st2, DCont [FRunWait; FChartAfterRun] SGo)
    | FChartAfterRun, SVal v =>
      (st, DCont [emit_frames EvPipelineComplete None None (Some v); FChartAfterEmitOk v] SGo)
    | FChartAfterRun, SThrow e =>
      if is_Exception e
      then (st, DCont [emit_frames EvPipelineComplete None (Some e) None; FChartAfterEmitErr e] SGo)
      else (st, DRet (SThrow e))
    | FChartAfterEmitOk v, SVal _ => (st, DRet (SVal v))
    | FChartAfterEmitOk v, SThrow e =>
      if is_Exception e
      then (st, DCont [emit_frames EvPipelineComplete None (Some e) None; FChartAfterEmitErr e] SGo)
      else (st, DRet (SThrow e))
    | FChartAfterEmitErr e, SVal _ => (st, DRet (SResErr e))
    (* ---------------- _emit ---------------- *)
    | FEmit ev n err res mgr false, SGo =>
      if Nat.leb (p_mgrs P) mgr then (st, DRet (SVal VNone))
      else
        let k := ctr_get (CEmit mgr ev n) st in
        let st1 := bump (CEmit mgr ev n) (emit_obs (OEmit mgr ev n err res) st) in
        if p_mgr_gated P then (st1, DSuspend (WGate (GEmit ev n mgr k)) [FEmit ev n err res mgr true])
        else if p_mgr_fault P mgr ev n k then (st1, DRet (SThrow (XMgr k)))
             else (st1, DCont [FEmit ev n err res (S mgr) false] SGo)
    | FEmit ev n err res mgr true, SGo =>
      let k := Nat.pred (ctr_get (CEmit mgr ev n) st) in
      if p_mgr_fault P mgr ev n k then (st, DRet (SThrow (XMgr k)))
      else (st, DCont [FEmit ev n err res (S mgr) false] SGo)
    (* ---------------- ArtifactStore.save ---------------- *)
    | FSave n v false _, SGo =>
      match p_store P with
      | StNone => (st, DRet (SVal VNone))
      | _ =>
        let k := ctr_get (CSave n) st in
        let st1 := bump (CSave n) (emit_obs (OSave n v) st) in
        if p_store_gated P then (st1, DSuspend (WGate (GSave n k)) [FSave n v true k])
        else (st1, DCont [FSave n v true k] SGo)
      end
    | FSave n v true k, SGo =>
      if p_store_fault P n k then (st, DRet (SThrow (XStore k)))
      else match p_store P with
           | StWriteOnce => if Nat.ltb 0 k then (st, DRet (SThrow (XEng EArtifactExists n)))
                            else (st, DRet (SVal VNone))
           | _ => (st, DRet (SVal VNone))
           end
    (* ---------------- manager.run ---------------- *)
    | FRunWait, SGo =>
      if run_pred st then
        let st1 := emit_obs (ORunDone (task_errors st)) st in
        match task_errors st with
        | e :: r => (cancel_tasks (helper_tids st1) st1, DRet (SThrow (pick_error P e r)))
        | [] => (cancel_tasks (helper_tids st1) st1, DRet (SVal (get_result out true (st_store st))))
        end
      else (st, DSuspend (WCond CRun) [FRunWait])
    | FRunWait, SThrow e =>
      let st1 := emit_obs (ORunDone []) st in
      (cancel_tasks (helper_tids st1) st1, DRet (SThrow e))
    (* ---------------- _run_dag ---------------- *)
    | FDagStart d, SGo =>
      let order := if d_rec d then p_order P d
                   else filter (fun k => negb (exists_processed k (st_store st))) (p_order P d) in
      let st1 := if d_rec d
                 then fold_left (fun s k => emit_obs (OHide k) s) order (with_store (hide_all order) st)
                 else st in
      match order with
      | [] => (st1, DRet (SVal VNone))
      | _ => (st1, DCont [FDagLoop d order []] SGo)
      end
    | FDagLoop d [] locals, SGo => (st, DCont [FDagFinal d] SGo)
    | FDagLoop d (n :: rest) locals, SGo =>
      if is_ready (st_store st) d n then
        if d_oneof d && has_subgraph_error (st_store st) d then
          let st2 := notify_keys (descendants n) st in
          (notify (CNode (d_dst d)) st2, DRet (SVal VNone))
        else
          match (if d_oneof d then None else dep_error (st_store st) d n) with
          | Some e => (notify CRun st, DRet (SThrow e))
          | None =>
            let k := if is_switch G n then [FSwitchStart d n]
                     else if is_head G n then [FOneOfLoop d n (na_cands (nattr_of G n))]
                          else [FNodeStart d n false] in
            let '(st1, t') := spawn (TNNode n) true k st in
            (st1, DCont [FDagLoop d rest (locals ++ [t'])] SGo)
          end
      else (st, DSuspend (WCond (CNode n)) [FDagLoop d (n :: rest) locals])
    | FDagFinal d, SGo =>
      if exists_result (d_dst d) (st_store st)
      then (st, DRet (SVal (get_result (d_dst d) true (st_store st))))
      else (st, DSuspend (WCond (CNode (d_dst d))) [FDagFinal d])
    (* ---------------- _run_switch ---------------- *)
    | FSwitchStart d n, SGo =>
      let lbl := match switch_decider n with Some dn => get_result dn false (st_store st) | None => VNone end in
      match switch_case_for n lbl with
      | None =>
        let err := XEng ESwitchNoBranch n in
        if d_oneof d then
          let st1 := emit_obs (OSetResult n (VExn err)) (with_store (set_result n (VExn err)) st) in
          (notify_keys (descendants n) (notify (CNode n) st1), DRet (SVal VNone))
        else (notify CRun st, DRet (SThrow err))
      | Some c =>
        let st1 := with_store (set_switch n lbl c) st in
        let '(st2, rd) := reduced st1 inp c (d_oneof d) false in
        (st2, DCont [FDagStart rd; FSwitchAfter n] SGo)
      end
    | FSwitchAfter n, SVal r => (notify_keys (descendants n) st, DRet (SVal r))
    (* ---------------- _run_oneof ---------------- *)
    | FOneOfLoop d h [], SGo =>
      let err := XEng EOneOfNoResult h in
      if d_nested d then
        let st1 := emit_obs (OSetResult h (VExn err)) (with_store (set_result h (VExn err)) st) in
        (notify_keys (descendants h) (notify (CNode h) st1), DRet (SVal VNone))
      else (notify CRun st, DRet (SThrow err))
    | FOneOfLoop d h (c :: rest), SGo =>
      let '(st1, od) := reduced st inp c true true in
      let '(st2, _) := spawn (TNDag inp c) true [FDagStart od] st1 in
      (st2, DCont [FOneOfWait d h c od rest] SGo)
    | FOneOfWait d h c od rest, SGo =>
      let s := st_store st in
      if oneof_pred s od c then
        if has_subgraph_error s od then (st, DCont [FOneOfLoop d h rest] SGo)
        else
          let v := get_result c true s in
          let st1 := emit_obs (OSetResult h v) (with_store (set_result h v) st) in
          (notify CRun (notify_keys (descendants h) (notify (CNode h) st1)), DRet (SVal VNone))
      else (st, DSuspend (WCond (CNode c)) [FOneOfWait d h c od rest])
    (* ---------------- _run_node ---------------- *)
    | FNodeStart d n force, SGo => (st, DCont [FExecStart d n force; FNodeAfterExec d n] SGo)
    | FNodeAfterExec d n, SElsewhere => (finally_b d n st, DRet (SVal VNone))
    | FNodeAfterExec d n, SVal res =>
      let '(st1, unlock) :=
          if is_rec res then (fst (spawn (TNRec n) true [FRecStart d n res] st), false) else (st, true) in
      let st2 := emit_obs (OSetResult n res) (with_store (set_result n res) st1) in
      if is_rec res || is_exn res then (st2, DCont [FNodeAfterSave d n unlock] (SVal VNone))
      else (st2, DCont [FSave n res false 0; FNodeAfterSave d n unlock] SGo)
    | FNodeAfterExec d n, SThrow e => (finally_b d n st, DRet (SThrow e))
    | FNodeAfterSave d n true, SVal _ => (finally_b d n st, DRet (SVal VNone))
    | FNodeAfterSave d n true, SThrow e => (finally_b d n st, DRet (SThrow e))
    | FNodeAfterSave d n false, SVal _ => (finally_a n st, DRet (SVal VNone))
    | FNodeAfterSave d n false, SThrow e => (finally_a n st, DRet (SVal VNone))     (* return in finally swallows *)
    (* ---------------- _execute_node ---------------- *)
    | FExecStart d n force, SGo =>
      if exists_processed n (st_store st) then
        if event_is_set n st then (st, DRet SElsewhere) else (st, DSuspend (WEvent n) [FExecDup n])
      else
        let st1 := emit_obs (OProcessed n) (with_store (set_processed n) st) in
        (st1, DCont [emit_frames EvNodeStart (Some n) None None; FExecAfterStart d n force] SGo)
    | FExecDup n, SGo => (st, DRet SElsewhere)
    | FExecAfterStart d n force, SVal _ =>
      match node_kwargs st n with
      | None => (st, DCont [FExecAfterBody d n] (SThrow (XEng EInternal n)))
      | Some kw => (st, DCont [FRetry (real_index n) force kw 1; FExecAfterBody d n] SGo)
      end
    | FExecAfterBody d n, SVal v =>
      (st, DCont [emit_frames EvNodeComplete (Some n) None None; FExecAfterOk d n v] SGo)
    | FExecAfterBody d n, SThrow e =>
      if is_Exception e
      then (st, DCont [emit_frames EvNodeComplete (Some n) (Some e) None; FExecAfterErr d e] SGo)
      else (st, DRet (SThrow e))
    | FExecAfterOk d n v, SVal _ => (st, DRet (SVal v))
    | FExecAfterOk d n v, SThrow e =>
      if is_Exception e
      then (st, DCont [emit_frames EvNodeComplete (Some n) (Some e) None; FExecAfterErr d e] SGo)
      else (st, DRet (SThrow e))
    | FExecAfterErr d e, SVal _ => if d_oneof d then (st, DRet (SVal (VExn e))) else (st, DRet (SThrow e))
    (* ---------------- __execute_node ---------------- *)
    | FRetry i force kw att, SGo =>
      if force then (emit_obs (ODefault i kw) st, DRet (SVal (VDef i kw)))
      else
        let k := ctr_get (CBody i) st in
        let st1 := bump (CBody i) (emit_obs (OStart i k kw) st) in
        match ns_mode (nspec_of i) with
        | MImmediate | MInline => (st1, DCont [FRetryAfterBody i kw att] SGo)
        | _ => (st1, DSuspend (WGate (GBody i k)) [FRetryAfterBody i kw att])
        end
    | FRetryAfterBody i kw att, SGo =>
      match retry_decide (nspec_of i) (p_body P i kw (Nat.pred att)) att with
      | RDReturn v => (st, DRet (SVal v))
      | RDFinal c => default_or_raise i kw (XNode c i (Nat.pred att)) st
      | RDPropagate c => (st, DRet (SThrow (XNode c i (Nat.pred att))))
      | RDRetry c =>
        (st, DCont [emit_frames EvNodeComplete (Some (KN i)) (Some (XNode c i (Nat.pred att))) None;
                    FRetryAfterEmit i kw att] SGo)
      end
    | FRetryAfterEmit i kw att, SVal _ =>
      let dl := pol_delay (nspec_of i) in
      match dl with
      | O => (st, DYield [FRetryAfterSleep i kw att])
      | _ => let k := ctr_get (CSleep i) st in
             (bump (CSleep i) (emit_obs (OSleep i dl) st), DSuspend (WGate (GTimer i k)) [FRetryAfterSleep i kw att])
      end
    | FRetryAfterSleep i kw att, SGo => (st, DCont [FRetry i false kw (S att)] SGo)
    (* ---------------- _run_recurrent_subgraph ---------------- *)
    | FRecStart d n res, SGo =>
      match na_start (nattr_of G n) with
      | None => (st, DRet (SThrow (XEng EInternal n)))
      | Some s =>
        if is_active (s, n) (st_store st) then (st, DRet (SVal VNone))
        else
          let st1 := with_store (set_active (s, n) true) st in
          let mx := match na_maxit (nattr_of G n) with Some m => m | None => 0 end in
          (st1, DCont [FRecLoop d n s (rec_subgraph s n (d_oneof d)) mx res] SGo)
      end
    | FRecLoop d n s rsub (S r) res, SGo =>
      (set_adddata s (rec_data res) st, DCont [FDagStart rsub; FRecAfterIter d n s rsub r] SGo)
    | FRecLoop d n s rsub O res, SGo =>
      if is_rec res && ns_default (nspec_of (real_index n)) then
        let st1 := emit_obs (OHide n) (with_store (hide1 n) st) in
        (st1, DCont [FNodeStart d n true; FRecAfterDefault s n] SGo)
      else
        let err := XEng ERecNoResult n in
        if d_oneof d then
          let st1 := emit_obs (OSetResult n (VExn err)) (with_store (set_result n (VExn err)) st) in
          let st2 := notify_keys (descendants n) (notify (CNode n) st1) in
          (with_store (set_active (s, n) false) st2, DRet (SVal VNone))
        else (notify CRun st, DRet (SThrow err))
    | FRecAfterIter d n s rsub r, SVal res =>
      if has_subgraph_error (st_store st) rsub then (st, DRet (SVal VNone))
      else if negb (is_rec res) then (with_store (set_active (s, n) false) st, DRet (SVal VNone))
           else (st, DCont [FRecLoop d n s rsub r res] SGo)
    | FRecAfterDefault s n, SVal _ => (with_store (set_active (s, n) false) st, DRet (SVal VNone))
    (* ---------------- everything else: an exception passes through a frame without a handler;
       a value delivered to a frame that does not expect one is an interpreter error ---------- *)
    | _, SThrow e => (st, DRet (SThrow e))
    | _, SResErr e => (st, DRet (SResErr e))
    | _, _ => (st, DRet (SThrow (XEng EOutOfFuel inp)))
    end.

  (* The interpreter's fuel ran out inside one atomic segment (never on a real case: the driver reports it and the
     correspondence check would flag it): the whole run is marked dead, every task finished with the model-only error. *)
  Definition abort (st : mstate) : mstate :=
    {| st_store := st_store st; st_adddata := st_adddata st;
       st_tasks := map (fun x => {| t_id := t_id x; t_name := t_name x; t_state := TDone (SThrow (XEng EOutOfFuel inp));
                                    t_helper := t_helper x |}) (st_tasks st);
       st_ready := []; st_waiters := []; st_events := st_events st; st_trace := st_trace st; st_ctrs := st_ctrs st;
       st_next := st_next st |}.

  (* Run task t from its stack until it suspends or finishes. *)
  Fixpoint exec (fuel : nat) (t : tid) (k : list frame) (sg : signal) (st : mstate) : mstate :=
    match k with
    | [] => set_tstate t (TDone sg) st
    | fr :: rest =>
      match fuel with
      | O => abort st
      | S f =>
        match step_frame t fr sg st with
        | (st1, DSuspend w k') => suspend t w (k' ++ rest) st1
        | (st1, DYield k') => push_ready t (set_tstate t (TReady (k' ++ rest) SGo) st1)
        | (st1, DCont k' sg') => exec f t (k' ++ rest) sg' st1
        | (st1, DRet sg') => exec f t rest sg' st1
        end
      end
    end.

  Definition fuel_budget : nat := 64 + 16 * (length (g_nodes G) + length (g_edges G) + p_mgrs P).

  (* One event-loop iteration: run the task at the head of the ready queue. *)
  Definition loop_step (st : mstate) : mstate :=
    match st_ready st with
    | [] => st
    | t :: rest =>
      let st1 := {| st_store := st_store st; st_adddata := st_adddata st;
                    st_tasks := st_tasks st; st_ready := rest; st_waiters := st_waiters st;
                    st_events := st_events st; st_trace := st_trace st; st_ctrs := st_ctrs st; st_next := st_next st |} in
      match find_task t (st_tasks st1) with
      | Some {| t_state := TReady k sg |} => exec fuel_budget t k sg st1
      | _ => st1
      end
    end.

  Definition init_state : mstate := fst (spawn TNMain false [FChartStart] state0).
  Definition main_tid : tid := 0.

  (* completion of an outstanding gate chosen by the schedule *)
  Definition complete_gate (g : gate) (st : mstate) : mstate := wake_all (WGate g) SGo st.

  Definition main_state (st : mstate) : option (tstate frame) :=
    option_map (t_state) (find_task main_tid (st_tasks st)).

End Engine.
