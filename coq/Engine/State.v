(* Run-time state of one manager run on the asyncio loop: storage (dag/storage.py), tasks, the FIFO
   ready queue, Condition waiters, Events, outstanding gates, the observable trace. *)
From MLPE Require Export Pure.Builder.

(* ---- storage: HiddenDict / DAGNodeStorage ------------------------------------------------- *)
Record storage := {
  s_results : list (key * value);  s_res_hidden : list key;
  s_processed : list key;          s_proc_hidden : list key;
  s_switch : list (key * (value * key));          (* CaseResult(label, node_id) *)
  s_active : list (key * key)                     (* active recurrent subgraphs (start, dest) *)
}.
Definition storage0 : storage :=
  {| s_results := []; s_res_hidden := []; s_processed := []; s_proc_hidden := []; s_switch := []; s_active := [] |}.

Definition pair_eqb (a b : key * key) : bool := key_eqb (fst a) (fst b) && key_eqb (snd a) (snd b).

(* HiddenDict.set : un-hide and store *)
Definition set_result (k : key) (v : value) (s : storage) : storage :=
  {| s_results := aset key_eqb k v (s_results s); s_res_hidden := remove_all key_eqb k (s_res_hidden s);
     s_processed := s_processed s; s_proc_hidden := s_proc_hidden s; s_switch := s_switch s; s_active := s_active s |}.
(* HiddenDict.get(key, with_hidden): None when hidden (and not asked for) or absent *)
Definition get_result_opt (k : key) (with_hidden : bool) (s : storage) : option value :=
  if negb with_hidden && mem key_eqb k (s_res_hidden s) then None else alookup key_eqb k (s_results s).
Definition get_result (k : key) (with_hidden : bool) (s : storage) : value :=
  match get_result_opt k with_hidden s with Some v => v | None => VNone end.
Definition exists_result (k : key) (s : storage) : bool :=      (* with_hidden = False *)
  match get_result_opt k false s with Some _ => true | None => false end.
Definition exists_error (k : key) (s : storage) : bool :=       (* exists_node_error, with_hidden = False *)
  match get_result_opt k false s with Some v => is_exn v | None => false end.
Definition set_processed (k : key) (s : storage) : storage :=
  {| s_results := s_results s; s_res_hidden := s_res_hidden s;
     s_processed := add_set key_eqb k (s_processed s); s_proc_hidden := remove_all key_eqb k (s_proc_hidden s);
     s_switch := s_switch s; s_active := s_active s |}.
Definition exists_processed (k : key) (s : storage) : bool :=   (* with_hidden = False *)
  negb (mem key_eqb k (s_proc_hidden s)) && mem key_eqb k (s_processed s).
Definition hide1 (k : key) (s : storage) : storage :=           (* hide_last_execution for one node *)
  {| s_results := s_results s; s_res_hidden := add_set key_eqb k (s_res_hidden s);
     s_processed := s_processed s; s_proc_hidden := add_set key_eqb k (s_proc_hidden s);
     s_switch := s_switch s; s_active := s_active s |}.
Definition hide_all (ks : list key) (s : storage) : storage := fold_left (fun s k => hide1 k s) ks s.
Definition set_switch (k : key) (lbl : value) (c : key) (s : storage) : storage :=
  {| s_results := s_results s; s_res_hidden := s_res_hidden s; s_processed := s_processed s;
     s_proc_hidden := s_proc_hidden s; s_switch := aset key_eqb k (lbl, c) (s_switch s); s_active := s_active s |}.
Definition get_switch (k : key) (s : storage) : option (value * key) := alookup key_eqb k (s_switch s).
Definition set_active (p : key * key) (on : bool) (s : storage) : storage :=
  {| s_results := s_results s; s_res_hidden := s_res_hidden s; s_processed := s_processed s;
     s_proc_hidden := s_proc_hidden s; s_switch := s_switch s;
     s_active := if on then add_set pair_eqb p (s_active s) else remove_all pair_eqb p (s_active s) |}.
Definition is_active (p : key * key) (s : storage) : bool := mem pair_eqb p (s_active s).

(* ---- tasks --------------------------------------------------------------------------------- *)
Inductive evkind := EvPipelineStart | EvPipelineComplete | EvNodeStart | EvNodeComplete.
Definition evkind_eqb (a b : evkind) : bool :=
  match a, b with
  | EvPipelineStart, EvPipelineStart | EvPipelineComplete, EvPipelineComplete
  | EvNodeStart, EvNodeStart | EvNodeComplete, EvNodeComplete => true
  | _, _ => false
  end.

Inductive gate :=
| GBody (i k : nat)                                   (* k-th invocation of node i's body *)
| GTimer (i k : nat)                                  (* k-th retry timer armed for node i *)
| GEmit (ev : evkind) (n : option key) (mgr k : nat)  (* k-th callback of that kind for manager mgr *)
| GSave (n : key) (k : nat).

Definition okey_eqb (a b : option key) : bool :=
  match a, b with Some x, Some y => key_eqb x y | None, None => true | _, _ => false end.

Definition gate_eqb (a b : gate) : bool :=
  match a, b with
  | GBody i k, GBody i' k' => Nat.eqb i i' && Nat.eqb k k'
  | GTimer i k, GTimer i' k' => Nat.eqb i i' && Nat.eqb k k'
  | GEmit e n m k, GEmit e' n' m' k' => evkind_eqb e e' && okey_eqb n n' && Nat.eqb m m' && Nat.eqb k k'
  | GSave n k, GSave n' k' => key_eqb n n' && Nat.eqb k k'
  | _, _ => false
  end.

Inductive cond := CRun | CNode (k : key).
Definition cond_eqb (a b : cond) : bool :=
  match a, b with CRun, CRun => true | CNode x, CNode y => key_eqb x y | _, _ => false end.

Inductive signal :=
| SGo                      (* plain resumption (start, wake-up, timer, gate without payload) *)
| SVal (v : value)         (* a callee returned v *)
| SElsewhere               (* _execute_node: the node is executed by another request *)
| SThrow (e : exn)         (* an exception propagates (CancelledError = XCancelled) *)
| SResErr (e : exn).       (* PipelineChart.run returns PipelineResult(error=e) *)

Definition tid := nat.

(* counters naming the k-th gate of a kind (the k of GBody / GTimer / GEmit / GSave) *)
Inductive ctr := CBody (i : nat) | CSleep (i : nat) | CEmit (mgr : nat) (ev : evkind) (n : option key) | CSave (n : key).
Definition ctr_eqb (a b : ctr) : bool :=
  match a, b with
  | CBody i, CBody j => Nat.eqb i j
  | CSleep i, CSleep j => Nat.eqb i j
  | CEmit m e n, CEmit m' e' n' => Nat.eqb m m' && evkind_eqb e e' && okey_eqb n n'
  | CSave n, CSave n' => key_eqb n n'
  | _, _ => false
  end.

Inductive wait := WCond (c : cond) | WEvent (n : key) | WGate (g : gate).

Section WithFrame.
  Variable frame : Type.

  Inductive tstate :=
  | TReady (k : list frame) (sg : signal)
  | TWait (w : wait) (k : list frame)
  | TDone (r : signal).                 (* SVal / SGo : finished; SThrow e : finished with exception (XCancelled: cancelled) *)

  Inductive tname := TNMain | TNRun | TNNode (k : key) | TNDag (src dst : key) | TNRec (k : key).

  Record task := { t_id : tid; t_name : tname; t_state : tstate; t_helper : bool (* member of _coro_tasks *) }.

  (* observable trace *)
  Inductive obs :=
  | OStart (i k : nat) (kw : kwargs)                (* body invocation *)
  | ODefault (i : nat) (kw : kwargs)                (* get_default invocation *)
  | OEmit (mgr : nat) (ev : evkind) (n : option key) (err : option exn) (res : option value)
  | OSave (n : key) (v : value)
  | OSleep (i : nat) (d : nat)
  (* ghost events used by theorems only *)
  | OSetResult (n : key) (v : value)
  | OHide (n : key)
  | OProcessed (n : key)
  | OSpawn (t : tid) (nm : tname)
  | ORunDone (alts : list exn).          (* run() finished; every error it could have picked *)

  Record state := {
    st_store : storage;
    st_adddata : list (key * value);      (* per-run: additional_data per start node *)
    st_tasks : list task;                 (* creation order *)
    st_ready : list tid;                  (* FIFO *)
    st_waiters : list (wait * tid);       (* Condition / Event waiters in arrival order; gate waiters *)
    st_events : list key;                 (* set asyncio.Events *)
    st_trace : list obs;                  (* newest first; write-only: nothing below reads it (Proofs/TraceErase.v) *)
    st_ctrs : list (ctr * nat);           (* how many body invocations / timers / callbacks / saves were started, per kind *)
    st_next : tid
  }.

  Definition state0 : state :=
    {| st_store := storage0; st_adddata := []; st_tasks := []; st_ready := [];
       st_waiters := []; st_events := []; st_trace := []; st_ctrs := []; st_next := 0 |}.

  Definition with_store (f : storage -> storage) (st : state) : state :=
    {| st_store := f (st_store st); st_adddata := st_adddata st;
       st_tasks := st_tasks st; st_ready := st_ready st; st_waiters := st_waiters st;
       st_events := st_events st; st_trace := st_trace st; st_ctrs := st_ctrs st; st_next := st_next st |}.

  Definition emit_obs (o : obs) (st : state) : state :=
    {| st_store := st_store st; st_adddata := st_adddata st;
       st_tasks := st_tasks st; st_ready := st_ready st; st_waiters := st_waiters st;
       st_events := st_events st; st_trace := o :: st_trace st; st_ctrs := st_ctrs st; st_next := st_next st |}.

  Definition ctr_get (c : ctr) (st : state) : nat :=
    match alookup ctr_eqb c (st_ctrs st) with Some k => k | None => 0 end.
  Definition bump (c : ctr) (st : state) : state :=
    {| st_store := st_store st; st_adddata := st_adddata st;
       st_tasks := st_tasks st; st_ready := st_ready st; st_waiters := st_waiters st;
       st_events := st_events st; st_trace := st_trace st;
       st_ctrs := aset ctr_eqb c (S (ctr_get c st)) (st_ctrs st); st_next := st_next st |}.

  Definition set_adddata (k : key) (v : value) (st : state) : state :=
    {| st_store := st_store st; st_adddata := aset key_eqb k v (st_adddata st);
       st_tasks := st_tasks st; st_ready := st_ready st; st_waiters := st_waiters st;
       st_events := st_events st; st_trace := st_trace st; st_ctrs := st_ctrs st; st_next := st_next st |}.

  Fixpoint find_task (t : tid) (l : list task) : option task :=
    match l with
    | [] => None
    | x :: r => if Nat.eqb (t_id x) t then Some x else find_task t r
    end.

  Fixpoint upd_task (t : tid) (f : task -> task) (l : list task) : list task :=
    match l with
    | [] => []
    | x :: r => if Nat.eqb (t_id x) t then f x :: r else x :: upd_task t f r
    end.

  Definition set_tstate (t : tid) (ts : tstate) (st : state) : state :=
    {| st_store := st_store st; st_adddata := st_adddata st;
       st_tasks := upd_task t (fun x => {| t_id := t_id x; t_name := t_name x; t_state := ts; t_helper := t_helper x |})
                            (st_tasks st);
       st_ready := st_ready st; st_waiters := st_waiters st;
       st_events := st_events st; st_trace := st_trace st; st_ctrs := st_ctrs st; st_next := st_next st |}.

  Definition push_ready (t : tid) (st : state) : state :=
    {| st_store := st_store st; st_adddata := st_adddata st;
       st_tasks := st_tasks st; st_ready := st_ready st ++ [t]; st_waiters := st_waiters st;
       st_events := st_events st; st_trace := st_trace st; st_ctrs := st_ctrs st; st_next := st_next st |}.

  Definition set_waiters (w : list (wait * tid)) (st : state) : state :=
    {| st_store := st_store st; st_adddata := st_adddata st;
       st_tasks := st_tasks st; st_ready := st_ready st; st_waiters := w;
       st_events := st_events st; st_trace := st_trace st; st_ctrs := st_ctrs st; st_next := st_next st |}.

  (* asyncio.create_task: new task, first step appended to the ready queue *)
  Definition spawn (nm : tname) (helper : bool) (k : list frame) (st : state) : state * tid :=
    let t := st_next st in
    ({| st_store := st_store st; st_adddata := st_adddata st;
        st_tasks := st_tasks st ++ [{| t_id := t; t_name := nm; t_state := TReady k SGo; t_helper := helper |}];
        st_ready := st_ready st ++ [t]; st_waiters := st_waiters st;
        st_events := st_events st; st_trace := OSpawn t nm :: st_trace st; st_ctrs := st_ctrs st; st_next := S t |}, t).

  Definition wait_eqb (a b : wait) : bool :=
    match a, b with
    | WCond c, WCond c' => cond_eqb c c'
    | WEvent n, WEvent n' => key_eqb n n'
    | WGate g, WGate g' => gate_eqb g g'
    | _, _ => false
    end.

  (* wake one waiting task with a signal: its continuation becomes ready, appended to the queue *)
  Definition wake (t : tid) (sg : signal) (st : state) : state :=
    match find_task t (st_tasks st) with
    | Some {| t_state := TWait _ k |} => push_ready t (set_tstate t (TReady k sg) st)
    | _ => st
    end.

  (* Condition.notify_all / Event.set / completion of a gate: wake every waiter on w, in arrival order *)
  Definition wake_all (w : wait) (sg : signal) (st : state) : state :=
    let hit := filter (fun p => wait_eqb (fst p) w) (st_waiters st) in
    let rest := filter (fun p => negb (wait_eqb (fst p) w)) (st_waiters st) in
    fold_left (fun s p => wake (snd p) sg s) hit (set_waiters rest st).

  Definition notify (c : cond) (st : state) : state := wake_all (WCond c) SGo st.

  Definition set_event (n : key) (st : state) : state :=
    let st1 := {| st_store := st_store st; st_adddata := st_adddata st;
                  st_tasks := st_tasks st; st_ready := st_ready st; st_waiters := st_waiters st;
                  st_events := add_set key_eqb n (st_events st); st_trace := st_trace st; st_ctrs := st_ctrs st; st_next := st_next st |} in
    wake_all (WEvent n) SGo st1.

  Definition event_is_set (n : key) (st : state) : bool := mem key_eqb n (st_events st).

  (* Task.cancel() *)
  Definition cancel_task (t : tid) (st : state) : state :=
    match find_task t (st_tasks st) with
    | Some {| t_state := TDone _ |} => st
    | Some {| t_state := TReady k _ |} => set_tstate t (TReady k (SThrow XCancelled)) st      (* must_cancel *)
    | Some {| t_state := TWait w k |} =>
      let rest := filter (fun p => negb (Nat.eqb (snd p) t)) (st_waiters st) in
      push_ready t (set_tstate t (TReady k (SThrow XCancelled)) (set_waiters rest st))
    | None => st
    end.

  Definition cancel_tasks (ts : list tid) (st : state) : state := fold_left (fun s t => cancel_task t s) ts st.

  Definition is_done (t : task) : bool := match t_state t with TDone _ => true | _ => false end.

  (* exceptions of finished, non-cancelled helper tasks, in creation order *)
  Definition task_errors (st : state) : list exn :=
    flat_map (fun t => if t_helper t then
                         match t_state t with
                         | TDone (SThrow XCancelled) => []
                         | TDone (SThrow e) => [e]
                         | _ => []
                         end
                       else []) (st_tasks st).

  Definition helper_tids (st : state) : list tid :=
    flat_map (fun t => if t_helper t then [t_id t] else []) (st_tasks st).

  Definition suspend (t : tid) (w : wait) (k : list frame) (st : state) : state :=
    set_waiters (st_waiters st ++ [(w, t)]) (set_tstate t (TWait w k) st).

  Definition pending_gates (st : state) : list gate :=
    flat_map (fun p => match fst p with WGate g => [g] | _ => [] end) (st_waiters st).

End WithFrame.

Arguments TReady {frame}.
Arguments TWait {frame}.
Arguments TDone {frame}.
Arguments state0 {frame}.
Arguments with_store {frame}.
Arguments emit_obs {frame}.
Arguments set_adddata {frame}.
Arguments ctr_get {frame}.
Arguments bump {frame}.
Arguments find_task {frame}.
Arguments upd_task {frame}.
Arguments set_tstate {frame}.
Arguments push_ready {frame}.
Arguments set_waiters {frame}.
Arguments spawn {frame}.
Arguments wake {frame}.
Arguments wake_all {frame}.
Arguments notify {frame}.
Arguments set_event {frame}.
Arguments event_is_set {frame}.
Arguments cancel_task {frame}.
Arguments cancel_tasks {frame}.
Arguments is_done {frame}.
Arguments task_errors {frame}.
Arguments helper_tids {frame}.
Arguments suspend {frame}.
Arguments pending_gates {frame}.
Arguments st_store {frame}.
Arguments st_adddata {frame}.
Arguments st_tasks {frame}.
Arguments st_ready {frame}.
Arguments st_waiters {frame}.
Arguments st_events {frame}.
Arguments st_trace {frame}.
Arguments st_ctrs {frame}.
Arguments st_next {frame}.
Arguments t_id {frame}.
Arguments t_name {frame}.
Arguments t_state {frame}.
Arguments t_helper {frame}.
Arguments Build_state {frame}.
Arguments Build_task {frame}.
