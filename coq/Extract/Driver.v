(* Entry points for the extracted OCaml driver. *)
From MLPE Require Export Engine.Run Spec.Fragments.
From MLPE Require Pure.FsStore Pure.Validate Pure.Viewer.
From MLPE Require Import Explore.StateEq Explore.Erase Explore.Explorer Explore.Paths Explore.Safe.
From MLPE Require Import Proofs.PlainWorld Proofs.PlainLive Proofs.PlainDeadlock Proofs.PlainC06.

Record result := {
  r_main : option (tstate frame);
  r_deadlock : bool;
  r_trace : list obs;                 (* oldest first *)
  r_quiescent : list (list gate);
  r_missing : nat;                    (* gate completions asked for a gate that was not outstanding *)
  r_alts : list exn;                  (* every error run() could have picked when it finished *)
  r_leftover : nat;                   (* tasks not done at the end *)
  r_ready : nat;
  r_pending : list gate;
  r_fuel : bool                       (* some task ran out of interpreter fuel *)
}.

Definition out_of_fuel (st : mstate) : bool :=
  existsb (fun t => match t_state t with
                    | TDone (SThrow (XEng EOutOfFuel _)) => true
                    | _ => false
                    end) (st_tasks st).

Definition run_case (P : prog) (sched : list action) : result :=
  let '(st, q, missing) := run_collect P sched (init_state) [] 0 in
  {| r_main := main_state st;
     r_deadlock := deadlocked st;
     r_trace := rev (st_trace st);
     r_quiescent := q;
     r_missing := missing;
     r_alts := task_errors st;
     r_leftover := length (filter (fun t => negb (is_done t)) (st_tasks st));
     r_ready := length (st_ready st);
     r_pending := pending_gates st;
     r_fuel := out_of_fuel st |}.

Definition built_of (ds : decls) : built := build ds 0 (Nat.pred (length ds)).

Definition eval_case (ds : decls) (bs : list nbeh) (input : kwargs) : res * list exec_rec :=
  let '(st, r) := eval_output ds (dsl_body bs) input 0 (Nat.pred (length ds)) in
  (r, rev (e_log st)).

Definition frag_flags (ds : decls) : list bool :=
  [ frag_Plain ds; frag_Sw ds; frag_OneOfX ds; frag_RecWN ds; wf_basic ds;
    dup_source ds; odd_switch ds; shared_candidate ds; switch_in_candidate ds; rec_conflict ds; rec_bad_start ds;
    rec_outside_reader ds; rec_nonplain_inside ds; rec_overlap ds; rec_in_scope ds; rec_dest_is_output ds;
    has_switch ds; has_oneof ds; has_rec ds ].

Definition fsstore_case (ops : list FsStore.op) : list FsStore.opres := snd (FsStore.run_ops FsStore.step [] ops).
Definition fsstore_ext (pickle : bool) : list nat := FsStore.ext (if pickle then FsStore.FPickle else FsStore.FJson).

Definition validate_case (ds : decls) (flags : list Validate.defects) : option Validate.berr :=
  Validate.validate ds (fun i => match nth_opt flags i with Some d => d | None => Validate.no_defects end)
                    0 (Nat.pred (length ds)).

Definition viewer_case (ds : decls) (infos : list Viewer.ninfo) : Viewer.vconfig :=
  let B := built_of ds in
  Viewer.generate (b_graph B) (b_map B)
                  (fun i => match nth_opt infos i with
                            | Some d => d
                            | None => {| Viewer.ni_name := 0; Viewer.ni_verbose := 0; Viewer.ni_type := None; Viewer.ni_doc := None;
                                         Viewer.ni_generic := false |}
                            end).

(* every transition of the explored, history-free state graph of one program, each as an action list from the initial state *)
Definition paths_case (P : prog) (wc : bool) : option (list (list action)) :=
  explore_paths P wc (Nat.mul 2000 1000) [(erase (init_state), [])] [] [].

(* model checking of one program by the extracted explorer (evidence for generated programs; the theorems use vm_compute on
   the catalogue): number of states explored and, per safety predicate, an action list to a violating state if there is one *)
Definition safety_by_name (P : prog) (wc : bool) (k : nat) : mstate -> bool :=
  match k with
  | 0 => safe_live
  | 1 => safe_outcome P wc
  | 2 => safe_counts P
  | 3 => safe_kwargs P
  | 4 => safe_saves
  | 5 => safe_events P
  | 6 => safe_quiesce P quiesce_bound
  | _ => safe_c06 P
  end.

Definition modelcheck_case (P : prog) (wc : bool) (k : nat) (limit : nat) : option (nat * option (list action)) :=
  find_unsafe P wc (safety_by_name P wc k) limit [(erase (init_state), [])] [] 0.

(* the hypotheses of the kind-F theorems (Properties/C02.v, C03.v, C04.v, C19.v) evaluated on one program with the library orders
   recorded from the real chart: is it a plain program, and are the recorded orders valid? *)
Definition is_plain_case (ds : decls) (bs : list nbeh) (input : kwargs) : bool :=
  graph_plain (b_graph (build ds 0 (Nat.pred (length ds)))) && forallb (fun nb => beh_plain (nb_beh nb)) bs && kw_clean input.
Definition valid_orders_case (P : prog) : bool := valid_orders_b P.
Definition by_depth_case (P : prog) : bool := c06_orders_b P.
