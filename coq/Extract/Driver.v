(* Entry points for the extracted OCaml driver. *)
From MLPE Require Export Engine.Run.

Record result := {
  r_main : option (tstate frame);
  r_deadlock : bool;
  r_trace : list obs;                 (* oldest first *)
  r_quiescent : list (list gate);
  r_missing : nat;                    (* gate completions asked for a gate that was not outstanding *)
  r_alts : list exn;                  (* every error run() could have picked when it finished *)
  r_leftover : nat;                   (* tasks not done at the end *)
  r_ready : nat;
  r_pending : list gate;
  r_fuel : bool                       (* some task ran out of interpreter fuel *)
}.

Definition out_of_fuel (st : mstate) : bool :=
  existsb (fun t => match t_state t with
                    | TDone (SThrow (XEng EOutOfFuel _)) => true
                    | _ => false
                    end) (st_tasks st).

Definition run_case (P : prog) (sched : list action) : result :=
  let '(st, q, missing) := run_collect P sched (init_state) [] 0 in
  {| r_main := main_state st;
     r_deadlock := deadlocked st;
     r_trace := rev (st_trace st);
     r_quiescent := q;
     r_missing := missing;
     r_alts := task_errors st;
     r_leftover := length (filter (fun t => negb (is_done t)) (st_tasks st));
     r_ready := length (st_ready st);
     r_pending := pending_gates st;
     r_fuel := out_of_fuel st |}.

Definition built_of (ds : decls) : built := build ds 0 (Nat.pred (length ds)).
