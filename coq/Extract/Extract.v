From Coq Require Extraction.
From Coq Require Import ExtrOcamlBasic.
From MLPE Require Import Extract.Driver.
Extraction Language OCaml.
Separate Extraction run_case mk_prog with_pick built_of default_order eval_case frag_flags fsstore_case fsstore_ext validate_case viewer_case paths_case modelcheck_case is_plain_case valid_orders_case by_depth_case.
