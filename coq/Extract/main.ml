(* Line-oriented driver for the extracted model: one s-expression per input line, one JSON line out.
   Hand-written and trusted: parsing, conversion of numbers, printing. No model logic here. *)
open Datatypes
open BinNums
open Values
open Graph
open Builder
open State
open Manager
open Run
open Dataflow
open Driver

module L = Stdlib.List
module String = Stdlib.String

(* ---------- s-expressions ---------- *)
type sx = A of string | S of sx list

let parse (s : string) : sx =
  let n = String.length s in
  let pos = ref 0 in
  let rec skip () = if !pos < n && (s.[!pos] = ' ' || s.[!pos] = '\n' || s.[!pos] = '\t') then (incr pos; skip ()) in
  let rec item () =
    skip ();
    if !pos >= n then failwith "eof"
    else if s.[!pos] = '(' then begin
      incr pos;
      let acc = ref [] in
      let rec loop () =
        skip ();
        if !pos >= n then failwith "unclosed"
        else if s.[!pos] = ')' then incr pos
        else (acc := item () :: !acc; loop ()) in
      loop (); S (L.rev !acc)
    end else begin
      let st = !pos in
      while !pos < n && s.[!pos] <> ' ' && s.[!pos] <> '(' && s.[!pos] <> ')' && s.[!pos] <> '\n' do incr pos done;
      A (String.sub s st (!pos - st))
    end in
  item ()

(* ---------- numbers ---------- *)
let rec nat_of_int (i : int) : nat = if i <= 0 then O else Datatypes.S (nat_of_int (i - 1))
let rec int_of_nat (n : nat) : int = match n with O -> 0 | Datatypes.S m -> 1 + int_of_nat m
let rec pos_of_int (i : int) : positive =
  if i <= 1 then Coq_xH else if i land 1 = 0 then Coq_xO (pos_of_int (i lsr 1)) else Coq_xI (pos_of_int (i lsr 1))
let z_of_int (i : int) : coq_Z = if i = 0 then Z0 else if i > 0 then Zpos (pos_of_int i) else Zneg (pos_of_int (- i))
let rec int_of_pos (p : positive) : int = match p with Coq_xH -> 1 | Coq_xO q -> 2 * int_of_pos q | Coq_xI q -> 2 * int_of_pos q + 1
let int_of_z (z : coq_Z) : int = match z with Z0 -> 0 | Zpos p -> int_of_pos p | Zneg p -> - (int_of_pos p)

let atom = function A a -> a | S _ -> failwith "atom expected"
let lst = function S l -> l | A a -> failwith ("list expected, got " ^ a)
let int_ x = int_of_string (atom x)
let nat_ x = nat_of_int (int_ x)
let bool_ x = (atom x) = "1"
let field name (l : sx list) : sx list =
  let rec go = function
    | [] -> failwith ("missing field " ^ name)
    | S (A n :: rest) :: _ when n = name -> rest
    | _ :: r -> go r in
  go l

(* ---------- conversion ---------- *)
let key_ = function
  | S [A "n"; i] -> KN (nat_ i)
  | S [A "sw"; i; j] -> KSw (nat_ i, nat_ j)
  | S [A "oo"; i; j] -> KOo (nat_ i, nat_ j)
  | _ -> failwith "key"
let okey_ = function A "none" -> None | k -> Some (key_ k)
let cls_ x = match atom x with
  | "EA" -> EA | "EB" -> EB | "EC" -> EC | "BX" -> BX | "Exception" -> EExc | "BaseException" -> EBase
  | c -> failwith ("class " ^ c)
let ocls_ = function A "none" -> None | c -> Some (cls_ c)
let rec value_ = function
  | S [A "i"; z] -> VInt (z_of_int (int_ z))
  | S [A "s"; s] -> VStr (nat_ s)
  | S [A "none"] -> VNone
  | S [A "v"; i; S args] -> VNode (nat_ i, L.map kv_ args)
  | S [A "d"; i; S args] -> VDef (nat_ i, L.map kv_ args)
  | S [A "r"; v] -> VRec (value_ v)
  | _ -> failwith "value"
and kv_ = function S [p; v] -> (nat_ p, value_ v) | _ -> failwith "kv"
let mark_ = function
  | S [A "in"; m] -> MIn (nat_ m)
  | S [A "sw"; d; S cases] -> MSw (nat_ d, L.map (function S [l; m] -> (nat_ l, nat_ m) | _ -> failwith "case") cases)
  | S [A "oneof"; S cs] -> MOneOf (L.map nat_ cs)
  | S [A "rec"; s; d; mx] -> MRec (nat_ s, nat_ d, nat_ mx)
  | _ -> failwith "mark"
let mode_ x = match atom x with
  | "gated" -> MGated | "immediate" -> MImmediate | "inline" -> MInline | "thread" -> MThread | "process" -> MProcess
  | m -> failwith ("mode " ^ m)
let beh_ = function
  | A "ok" -> BOk | A "none" -> BNone
  | S [A "int"; z] -> BInt (z_of_int (int_ z))
  | S [A "str"; s] -> BStr (nat_ s)
  | S [A "recur"; k] -> BRecur (nat_ k)
  | S [A "receven"; k] -> BRecEven (nat_ k)
  | S [A "strep"; S ls] -> BStrEp (L.map nat_ ls)
  | _ -> failwith "beh"
let node_ (x : sx) : nspec * nbeh =
  let f = lst x in
  let params = L.map (function S [p; m] -> (nat_ p, mark_ m) | _ -> failwith "param") (field "params" f) in
  let one name = match field name f with [v] -> v | _ -> failwith name in
  ({ ns_params = params; ns_mode = mode_ (one "mode");
     ns_attempts = (match one "attempts" with A "none" -> None | z -> Some (z_of_int (int_ z)));
     ns_delay = (match one "delay" with A "none" -> None | d -> Some (nat_ d));
     ns_excs = (match one "excs" with A "none" -> None | S l -> Some (L.map cls_ l) | _ -> failwith "excs");
     ns_default = bool_ (one "default") },
   { nb_beh = beh_ (one "beh"); nb_fails = L.map ocls_ (field "fails" f) })
let ev_ x = match atom x with
  | "pipeline_start" -> EvPipelineStart | "pipeline_complete" -> EvPipelineComplete
  | "node_start" -> EvNodeStart | "node_complete" -> EvNodeComplete | e -> failwith ("event " ^ e)
let gate_ = function
  | S [A "b"; i; k] -> GBody (nat_ i, nat_ k)
  | S [A "t"; i; k] -> GTimer (nat_ i, nat_ k)
  | S [A "e"; ev; n; m; k] -> GEmit (ev_ ev, okey_ n, nat_ m, nat_ k)
  | S [A "sv"; n; k] -> GSave (key_ n, nat_ k)
  | _ -> failwith "gate"
let action_ = function
  | S [A "s"] -> AStep | S [A "q"] -> AQuiesce | S [A "c"] -> ACancel
  | S [A "g"; g] -> AGate (gate_ g)
  | _ -> failwith "action"
let store_ x = match atom x with "none" -> StNone | "record" -> StRecord | "writeonce" -> StWriteOnce | _ -> failwith "store"
let order_ = function
  | S [src; dst; r; o; ne; S nodes; S order] ->
    ({ d_nodes = L.map key_ nodes; d_src = key_ src; d_dst = key_ dst; d_rec = bool_ r; d_oneof = bool_ o; d_nested = bool_ ne },
     L.map key_ order)
  | _ -> failwith "order"

(* ---------- printing ---------- *)
let b = Buffer.create 4096
let pr = Buffer.add_string b
let pi i = pr (string_of_int i)
let plist f l = pr "["; L.iteri (fun i x -> if i > 0 then pr ","; f x) l; pr "]"
let pkey = function
  | KN i -> pr "[\"n\","; pi (int_of_nat i); pr "]"
  | KSw (i, j) -> pr "[\"sw\","; pi (int_of_nat i); pr ","; pi (int_of_nat j); pr "]"
  | KOo (i, j) -> pr "[\"oo\","; pi (int_of_nat i); pr ","; pi (int_of_nat j); pr "]"
let pokey = function None -> pr "null" | Some k -> pkey k
let cls_name = function EA -> "EA" | EB -> "EB" | EC -> "EC" | BX -> "BX" | EExc -> "Exception" | EBase -> "BaseException"
let eerr_name = function
  | EOneOfNoResult -> "OneOfDoesNotHaveResultError" | ERecNoResult -> "RecurrentSubgraphDoesNotHaveResultError"
  | ESwitchNoBranch -> "SwitchCaseDoesNotHaveBranchError" | EInternal -> "INTERNAL"
  | EArtifactExists -> "ArtifactAlreadyExists" | EPoolNotReady -> "RuntimeError" | EOutOfFuel -> "OUT_OF_FUEL"
let pexn = function
  | XNode (c, i, a) -> pr "[\"x\",\""; pr (cls_name c); pr "\","; pi (int_of_nat i); pr ","; pi (int_of_nat a); pr "]"
  | XEng (e, _) -> pr "[\"ee\",\""; pr (eerr_name e); pr "\"]"
  | XMgr k -> pr "[\"x\",\"EA\",-1,"; pi (int_of_nat k); pr "]"
  | XStore k -> pr "[\"x\",\"EA\",-2,"; pi (int_of_nat k); pr "]"
  | XCancelled -> pr "[\"ee\",\"CancelledError\"]"
let rec pval = function
  | VInt z -> pr "[\"i\","; pi (int_of_z z); pr "]"
  | VStr s -> pr "[\"s\","; pi (int_of_nat s); pr "]"
  | VNone -> pr "[\"none\"]"
  | VNode (i, args) -> pr "[\"v\","; pi (int_of_nat i); pr ","; plist pkv args; pr "]"
  | VDef (i, args) -> pr "[\"d\","; pi (int_of_nat i); pr ","; plist pkv args; pr "]"
  | VRec v -> pr "[\"r\","; pval v; pr "]"
  | VExn e -> pexn e
and pkv (p, v) = pr "["; pi (int_of_nat p); pr ","; pval v; pr "]"
let ev_name = function
  | EvPipelineStart -> "pipeline_start" | EvPipelineComplete -> "pipeline_complete"
  | EvNodeStart -> "node_start" | EvNodeComplete -> "node_complete"
let pgate = function
  | GBody (i, k) -> pr "[\"b\","; pi (int_of_nat i); pr ","; pi (int_of_nat k); pr "]"
  | GTimer (i, k) -> pr "[\"t\","; pi (int_of_nat i); pr ","; pi (int_of_nat k); pr "]"
  | GEmit (ev, n, m, k) -> pr "[\"e\",\""; pr (ev_name ev); pr "\","; pokey n; pr ","; pi (int_of_nat m); pr ","; pi (int_of_nat k); pr "]"
  | GSave (n, k) -> pr "[\"sv\","; pkey n; pr ","; pi (int_of_nat k); pr "]"
let pobs (o : obs) = match o with
  | OStart (i, k, kw) -> pr "[\"start\","; pi (int_of_nat i); pr ","; pi (int_of_nat k); pr ","; plist pkv kw; pr "]"
  | ODefault (i, kw) -> pr "[\"default\","; pi (int_of_nat i); pr ","; plist pkv kw; pr "]"
  | OEmit (m, ev, n, err, res) ->
    pr "[\"emit\","; pi (int_of_nat m); pr ",\""; pr (ev_name ev); pr "\","; pokey n; pr ",";
    (match ev, err, res with
     | EvPipelineComplete, Some e, _ -> pr "[\"error\","; pexn e; pr "]"
     | EvPipelineComplete, None, Some v -> pr "[\"value\","; pval v; pr "]"
     | _, Some e, _ -> pexn e
     | _, None, _ -> pr "null");
    pr "]"
  | OSave (n, v) -> pr "[\"save\","; pkey n; pr ","; pval v; pr "]"
  | OSleep (i, d) -> pr "[\"sleep\","; pi (int_of_nat i); pr ","; pi (int_of_nat d); pr "]"
  | OSetResult (n, v) -> pr "[\"setresult\","; pkey n; pr ","; pval v; pr "]"
  | OHide n -> pr "[\"hide\","; pkey n; pr "]"
  | OProcessed n -> pr "[\"processed\","; pkey n; pr "]"
  | OSpawn (t, _) -> pr "[\"spawn\","; pi (int_of_nat t); pr "]"
  | ORunDone alts -> pr "[\"rundone\","; plist pexn alts; pr "]"
let pmain = function
  | None -> pr "[\"missing\"]"
  | Some (TDone (SVal v)) -> pr "[\"value\","; pval v; pr "]"
  | Some (TDone (SResErr e)) -> pr "[\"error\","; pexn e; pr "]"
  | Some (TDone (SThrow XCancelled)) -> pr "[\"cancelled\"]"
  | Some (TDone (SThrow e)) -> pr "[\"raised\","; pexn e; pr "]"
  | Some (TDone _) -> pr "[\"odd\"]"
  | Some _ -> pr "[\"pending\"]"
let pbool x = pr (if x then "true" else "false")

let pgraph (bt : built) =
  let g = bt.b_graph in
  pr "{\"nodes\":";
  plist (fun (k, a) ->
      pr "["; pkey k; pr ",{";
      let first = ref true in
      let fld name f = (if not !first then pr ","); first := false; pr "\""; pr name; pr "\":"; f () in
      if a.na_switch then fld "is_switch" (fun () -> pr "true");
      if a.na_head then fld "is_oneof" (fun () -> pr "true");
      if a.na_child then fld "is_oneof_child" (fun () -> pr "true");
      if a.na_head then fld "oneof_nodes" (fun () -> plist pkey a.na_cands);
      (match a.na_start with Some s -> fld "start_node" (fun () -> pkey s) | None -> ());
      (match a.na_maxit with Some m -> fld "max_iterations" (fun () -> pi (int_of_nat m)) | None -> ());
      pr "}]") g.g_nodes;
  pr ",\"edges\":";
  plist (fun ((u, v), a) ->
      pr "["; pkey u; pr ","; pkey v; pr ",{";
      let first = ref true in
      let fld name f = (if not !first then pr ","); first := false; pr "\""; pr name; pr "\":"; f () in
      (match a.ea_kwarg with Some p -> fld "kwarg_name" (fun () -> pi (int_of_nat p)) | None -> ());
      if a.ea_is_switch then fld "is_switch" (fun () -> pr "true");
      (match a.ea_case with Some l -> fld "case_branch" (fun () -> pi (int_of_nat l)) | None -> ());
      pr "}]") g.g_edges;
  pr ",\"node_map\":"; plist (fun i -> pi (int_of_nat i)) bt.b_map;
  pr ",\"recs\":"; plist (fun (s, d) -> pr "["; pkey s; pr ","; pkey d; pr "]") bt.b_recs;
  pr ",\"synth\":"; plist pkey bt.b_synth;
  pr ",\"pop\":"; plist (fun i -> pi (int_of_nat i)) bt.b_pop;
  pr "}"

(* ---------- commands ---------- *)
let prog_of (f : sx list) =
  let nodes = L.map node_ (field "nodes" f) in
  let ds = L.map fst nodes and bs = L.map snd nodes in
  let one name = match field name f with [v] -> v | _ -> failwith name in
  let input = L.map kv_ (field "input" f) in
  let mgr_faults = L.map (function S [ev; n; k] -> ((ev_ ev, okey_ n), nat_ k) | _ -> failwith "mgr_fault") (field "mgr_faults" f) in
  let store_faults = L.map (function S [n; k] -> (key_ n, nat_ k) | _ -> failwith "store_fault") (field "store_faults" f) in
  let orders = L.map order_ (field "orders" f) in
  let succs = L.map (function S [k; S l] -> (key_ k, L.map key_ l) | _ -> failwith "succ") (field "succs" f) in
  let pools = field "pools" f in
  let p = mk_prog ds bs input (nat_ (one "mgrs")) (bool_ (one "mgr_gated")) mgr_faults (store_ (one "store"))
     (bool_ (one "store_gated")) store_faults orders succs (bool_ (L.nth pools 0)) (bool_ (L.nth pools 1)) in
  (* (pick j): which of several failed helper tasks run() reports (index into the model's task_errors); default 0 *)
  let p = (try (match field "pick" f with [v] -> with_pick p (nat_ v) | _ -> p) with Failure _ -> p) in
  (ds, p)

let handle (line : string) : unit =
  Buffer.clear b;
  (match parse line with
   | S (A "run" :: f) ->
     let (ds, p) = prog_of f in
     let sched = L.map action_ (field "sched" f) in
     let r = run_case p sched in
     let bs = L.map snd (L.map node_ (field "nodes" f)) in
     (* hypotheses of the theorems over all plain programs, on request: (hyps 1) plain + valid orders, (hyps 2) also depth-sorted *)
     let level = (try (match field "hyps" f with [v] -> int_of_nat (nat_ v) | _ -> 0) with _ -> 0) in
     let is_plain = level >= 1 && is_plain_case ds bs (L.map kv_ (field "input" f)) in
     let orders_valid = is_plain && valid_orders_case p in
     let orders_by_depth = level >= 2 && orders_valid && by_depth_case p in
     pr "{\"outcome\":"; pmain r.r_main;
     pr ",\"deadlock\":"; pbool r.r_deadlock;
     pr ",\"trace\":"; plist pobs r.r_trace;
     pr ",\"quiescent\":"; plist (plist pgate) r.r_quiescent;
     pr ",\"missing\":"; pi (int_of_nat r.r_missing);
     pr ",\"alts\":"; plist pexn r.r_alts;
     pr ",\"leftover\":"; pi (int_of_nat r.r_leftover);
     pr ",\"ready\":"; pi (int_of_nat r.r_ready);
     pr ",\"pending\":"; plist pgate r.r_pending;
     pr ",\"fuel\":"; pbool r.r_fuel;
     pr ",\"hyps\":"; pi level;
     pr ",\"plain\":"; pbool is_plain;
     pr ",\"orders_valid\":"; pbool orders_valid;
     pr ",\"orders_by_depth\":"; pbool orders_by_depth;
     pr "}"
   | S (A "modelcheck" :: f) ->
     let (_, p) = prog_of f in
     let one name = match field name f with [v] -> v | _ -> failwith name in
     let paction = function
       | AStep -> pr "[\"s\"]" | AQuiesce -> pr "[\"q\"]" | ACancel -> pr "[\"c\",0]"
       | AGate g -> pr "[\"g\","; pgate g; pr "]" in
     (match modelcheck_case p (bool_ (one "wc")) (nat_ (one "pred")) (nat_ (one "limit")) with
      | None -> pr "{\"states\":null}"
      | Some (n, None) -> pr "{\"states\":"; pi (int_of_nat n); pr ",\"unsafe\":null}"
      | Some (n, Some path) -> pr "{\"states\":"; pi (int_of_nat n); pr ",\"unsafe\":"; plist paction path; pr "}")
   | S (A "paths" :: f) ->
     let (_, p) = prog_of f in
     let wc = bool_ (match field "wc" f with [v] -> v | _ -> failwith "wc") in
     let paction = function
       | AStep -> pr "[\"s\"]" | AQuiesce -> pr "[\"q\"]" | ACancel -> pr "[\"c\",0]"
       | AGate g -> pr "[\"g\","; pgate g; pr "]" in
     (match paths_case p wc with
      | None -> pr "{\"paths\":null}"
      | Some ps -> pr "{\"paths\":"; plist (plist paction) ps; pr "}")
   | S (A "eval" :: f) ->
     let nodes = L.map node_ (field "nodes" f) in
     let input = L.map kv_ (field "input" f) in
     let (r, log) = eval_case (L.map fst nodes) (L.map snd nodes) input in
     let pcause = function
       | CNode (c, i, a) -> pr "[\"x\",\""; pr (cls_name c); pr "\","; pi (int_of_nat i); pr ","; pi (int_of_nat a); pr "]"
       | COneOf (i, j) -> pr "[\"ee\",\"OneOfDoesNotHaveResultError\"]"
       | CRec d -> pr "[\"ee\",\"RecurrentSubgraphDoesNotHaveResultError\"]"
       | CSwitch (i, j) -> pr "[\"ee\",\"SwitchCaseDoesNotHaveBranchError\"]" in
     let pres = function
       | ROk v -> pr "[\"ok\","; pval v; pr "]"
       | RFail cs -> pr "[\"fail\","; plist pcause cs; pr "]" in
     pr "{\"result\":"; pres r;
     pr ",\"log\":"; plist (fun x -> pr "{\"node\":"; pi (int_of_nat x.x_node); pr ",\"kw\":"; plist pkv x.x_kw;
                               pr ",\"attempts\":"; pi (int_of_nat x.x_attempts); pr ",\"default\":"; pbool x.x_default;
                               pr ",\"result\":"; pres x.x_result; pr "}") log;
     pr ",\"flags\":"; plist pbool (frag_flags (L.map fst nodes));
     pr "}"
   | S (A "fsstore" :: f) ->
     let aval_ = function
       | S [A "good"; n] -> FsStore.AGood (nat_ n) | S [A "ponly"; n] -> FsStore.APickleOnly (nat_ n)
       | S [A "bad"; n] -> FsStore.AUnserialisable (nat_ n) | _ -> failwith "aval" in
     let fmt_ x = match atom x with "pickle" -> FsStore.FPickle | "json" -> FsStore.FJson | _ -> failwith "fmt" in
     let op_ = function
       | S [A "save"; c; S i; fm; v] -> FsStore.OpSave (nat_ c, L.map nat_ i, fmt_ fm, aval_ v)
       | S [A "load"; c; S i] -> FsStore.OpLoad (nat_ c, L.map nat_ i)
       | _ -> failwith "op" in
     let paval = function
       | FsStore.AGood n -> pr "[\"good\","; pi (int_of_nat n); pr "]"
       | FsStore.APickleOnly n -> pr "[\"ponly\","; pi (int_of_nat n); pr "]"
       | FsStore.AUnserialisable n -> pr "[\"bad\","; pi (int_of_nat n); pr "]" in
     let pres = function
       | FsStore.RSaved -> pr "[\"saved\"]" | FsStore.RAlreadyExists -> pr "[\"exists\"]"
       | FsStore.RDumpFailed -> pr "[\"dumpfailed\"]" | FsStore.RLoaded v -> pr "[\"loaded\","; paval v; pr "]"
       | FsStore.RDoesNotExist -> pr "[\"missing\"]" | FsStore.RLoadBroken -> pr "[\"broken\"]" in
     pr "{\"results\":"; plist pres (fsstore_case (L.map op_ (field "ops" f)));
     pr ",\"ext_pickle\":"; plist (fun c -> pi (int_of_nat c)) (fsstore_ext true);
     pr ",\"ext_json\":"; plist (fun c -> pi (int_of_nat c)) (fsstore_ext false); pr "}"
   | S (A "validate" :: f) ->
     let nodes = L.map node_ (field "nodes" f) in
     let flag_ = function
       | S l -> let b i = bool_ (L.nth l i) in
         { Validate.df_not_class = b 0; df_no_base = b 1; df_no_process = b 2; df_no_annotations = b 3;
           df_unannotated_param = b 4; df_generic = b 5; df_no_rec_protocol = b 6; df_no_additional_data = b 7 }
       | _ -> failwith "flags" in
     let r = validate_case (L.map fst nodes) (L.map flag_ (field "flags" f)) in
     pr "{\"error\":";
     (match r with
      | None -> pr "null"
      | Some e -> pr "\""; pr (match e with
          | Validate.EIncorrectTypeClass -> "IncorrectTypeClass" | Validate.EIncorrectBaseClass -> "IncorrectBaseClass"
          | Validate.ERunMethodExpected -> "RunMethodExpectedError" | Validate.EUndefinedAnnotation -> "UndefinedAnnotation"
          | Validate.EUndefinedParamAnnotation -> "UndefinedParamAnnotation" | Validate.ENonRedefinedGeneric -> "NonRedefinedGenericTypeError"
          | Validate.EIncorrectRecurrentMixin -> "IncorrectRecurrentMixinClass"
          | Validate.EIncorrectParamsRecurrentNode -> "IncorrectParamsRecurrentNode"); pr "\"");
     pr "}"
   | S (A "viewer" :: f) ->
     let nodes = L.map node_ (field "nodes" f) in
     let onat = function A "none" -> None | x -> Some (nat_ x) in
     let info_ = function
       | S [nm; vb; ty; doc; ge] -> { Viewer.ni_name = nat_ nm; ni_verbose = nat_ vb; ni_type = onat ty; ni_doc = onat doc; ni_generic = bool_ ge }
       | _ -> failwith "info" in
     let cfg = viewer_case (L.map fst nodes) (L.map info_ (field "infos" f)) in
     let ptype = function
       | Viewer.VTSwitch -> pr "\"switch\"" | Viewer.VTOneOf -> pr "\"input_one_of\""
       | Viewer.VTDeclared t -> pr "[\"decl\","; pi (int_of_nat t); pr "]" | Viewer.VTNone -> pr "null" in
     let ponat = function None -> pr "null" | Some n -> pi (int_of_nat n) in
     pr "{\"nodes\":";
     plist (fun n -> pr "["; pkey n.Viewer.vn_id; pr ","; pbool n.Viewer.vn_virtual; pr ","; pbool n.Viewer.vn_generic; pr ",";
             ptype n.Viewer.vn_type; pr ",";
             (match n.Viewer.vn_data with
              | None -> pr "null"
              | Some ((nm, vb), doc) -> pr "["; pi (int_of_nat nm); pr ","; pi (int_of_nat vb); pr ","; ponat doc; pr "]");
             pr "]") cfg.Viewer.vc_nodes;
     pr ",\"edges\":"; plist (fun e -> pr "["; pkey e.Viewer.ve_source; pr ","; pkey e.Viewer.ve_target; pr "]") cfg.Viewer.vc_edges;
     pr ",\"types\":"; plist ptype cfg.Viewer.vc_types; pr "}"
   | S (A "build" :: f) ->
     let nodes = L.map node_ (field "nodes" f) in
     pgraph (built_of (L.map fst nodes))
   | _ -> failwith "unknown command");
  print_string (Buffer.contents b); print_newline ()

let () =
  try
    while true do
      let line = input_line stdin in
      if String.length line > 0 then
        (try handle line with e -> print_string ("{\"driver_error\":\"" ^ String.escaped (Printexc.to_string e) ^ "\"}"); print_newline ())
    done
  with End_of_file -> ()
