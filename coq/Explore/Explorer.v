(* Certified exhaustive exploration: for ONE concrete program, a finite set of history-free states that contains the
   initial state and is closed under every transition contains (the erasure of) every reachable state -- for schedules
   of any length. The set is computed and the closure re-checked inside Coq by vm_compute; no depth bound. *)
From MLPE Require Import Engine.Run Proofs.ExecLemmas Explore.StateEq Explore.Erase.

Lemma gate_eqb_sound : sound gate_eqb.
Proof.
  intros a b. destruct a; destruct b; cbn [gate_eqb]; try discriminate; intros H; split_and H.
  - apply Nat.eqb_eq in H, H0. subst. reflexivity.
  - apply Nat.eqb_eq in H, H0. subst. reflexivity.
  - apply Nat.eqb_eq in H0, H1. subst. f_equal.
    + destruct ev; destruct ev0; try discriminate; reflexivity.
    + destruct n as [x|]; destruct n0 as [y|]; cbn in H2; try discriminate; [f_equal; apply key_eqb_spec; exact H2|reflexivity].
  - apply Nat.eqb_eq in H0. apply key_eqb_spec in H. subst. reflexivity.
Qed.

Section Explore.
  Variable P : prog.
  Variable wc : bool.       (* explore cancellation by the caller too? *)

  Definition enabled (s : mstate) : list action := AStep :: (if wc then [ACancel] else []) ++ map AGate (pending_gates s).
  Definition memb (s : mstate) (R : list mstate) : bool := existsb (state_seqb s) R.

  Lemma memb_In s R : memb s R = true -> In s R.
  Proof. unfold memb. intros H. apply existsb_exists in H. destruct H as [s' [Hin He]]. apply state_seqb_sound in He. subst. exact Hin. Qed.

  Definition closed (R : list mstate) : bool :=
    forallb (fun s => forallb (fun a => memb (astep P a s) R) (enabled s)) R.

  Lemma erased_fix s : st_trace s = [] -> erase s = s.
  Proof. destruct s. cbn. intros ->. reflexivity. Qed.

  Lemma filter_none {A} (f : A -> bool) l : existsb f l = false -> filter f l = [] /\ filter (fun x => negb (f x)) l = l.
  Proof.
    induction l as [|x r IH]; cbn; [auto|]. intros H. apply orb_false_iff in H. destruct H as [H1 H2]. rewrite H1. cbn.
    destruct (IH H2) as [A1 A2]. rewrite A2. auto.
  Qed.

  Lemma wake_all_no_waiter w sg (s : mstate) :
    existsb (fun p : wait * tid => wait_eqb (fst p) w) (st_waiters s) = false -> erase (wake_all w sg s) = erase s.
  Proof.
    intros H. unfold wake_all. destruct (filter_none _ _ H) as [Hhit Hrest]. rewrite Hhit, Hrest. cbn [fold_left]. destruct s. reflexivity.
  Qed.

  Lemma pending_gate_in g (s : mstate) :
    existsb (fun p : wait * tid => wait_eqb (fst p) (WGate g)) (st_waiters s) = true -> In g (pending_gates s).
  Proof.
    intros H. apply existsb_exists in H. destruct H as [[w t] [Hin Hw]]. cbn in Hw. destruct w as [c|n|g']; try discriminate.
    cbn in Hw. apply gate_eqb_sound in Hw. subst g'. unfold pending_gates. apply in_flat_map. exists (WGate g, t). split; [exact Hin|left; reflexivity].
  Qed.

  Section Sound.
    Variable R : list mstate.
    Hypothesis Hinit : memb (erase (init_state)) R = true.
    Hypothesis Hclosed : closed R = true.
    Hypothesis Herased : forallb (fun s => match st_trace s with [] => true | _ => false end) R = true.

    Lemma R_erased s : In s R -> erase s = s.
    Proof. intros H. rewrite forallb_forall in Herased. specialize (Herased s H). apply erased_fix. destruct (st_trace s); [reflexivity|discriminate]. Qed.

    Lemma R_enabled s a : In s R -> In a (enabled s) -> In (astep P a s) R.
    Proof.
      intros Hs Ha. unfold closed in Hclosed. rewrite forallb_forall in Hclosed. specialize (Hclosed s Hs).
      rewrite forallb_forall in Hclosed. apply memb_In. apply Hclosed. exact Ha.
    Qed.

    Lemma R_quiesce fuel s : In s R -> In (erase (quiesce P fuel s)) R.
    Proof.
      revert s. induction fuel as [|f IH]; intros s Hs; cbn [quiesce]; [rewrite (R_erased s Hs); exact Hs|].
      destruct (st_ready s) eqn:E; [rewrite (R_erased s Hs); exact Hs|].
      assert (Hn : In (astep P AStep s) R) by (apply R_enabled; [exact Hs|left; reflexivity]).
      specialize (IH _ Hn). unfold astep in IH at 1. cbn [apply_action] in IH.
      replace (erase (quiesce P f (loop_step P s))) with (erase (quiesce P f (erase (loop_step P s)))); [exact IH|].
      apply (quiesce_eqe P f (erase (loop_step P s)) (loop_step P s)). apply eqe_erase.
    Qed.

    Lemma R_step s a : In s R -> act_ok wc a = true -> In (astep P a s) R.
    Proof.
      intros Hs Hok. destruct a as [| |g|].
      - apply R_enabled; [exact Hs|left; reflexivity].
      - unfold astep. cbn [apply_action]. apply R_quiesce. exact Hs.
      - destruct (existsb (fun p : wait * tid => wait_eqb (fst p) (WGate g)) (st_waiters s)) eqn:E.
        + apply R_enabled; [exact Hs|]. right. apply in_or_app. right. apply in_map. apply pending_gate_in. exact E.
        + unfold astep. cbn [apply_action]. unfold complete_gate. rewrite (wake_all_no_waiter _ _ _ E), (R_erased s Hs). exact Hs.
      - cbn in Hok. apply R_enabled; [exact Hs|]. unfold enabled. rewrite Hok. right. left. reflexivity.
    Qed.

    Theorem closed_sound s : reachable_e P wc s -> In s R.
    Proof. intros H. induction H as [|s a H IH Hok]; [apply memb_In; exact Hinit|apply R_step; assumption]. Qed.

    (* what holds of every state of the set holds of every reachable state, for every schedule *)
    Corollary explored_safe (safe : mstate -> bool) :
      forallb safe R = true -> forall st, reachable_by P wc st -> safe (erase st) = true.
    Proof.
      intros Hs st Hr. rewrite forallb_forall in Hs. apply Hs. apply closed_sound. apply reachable_erase. exact Hr.
    Qed.
  End Sound.

  (* worklist exploration (depth first); None = out of fuel *)
  Fixpoint explore (fuel : nat) (todo seen : list mstate) : option (list mstate) :=
    match fuel with
    | O => None
    | S f =>
      match todo with
      | [] => Some seen
      | s :: rest => if memb s seen then explore f rest seen
                     else explore f (map (fun a => astep P a s) (enabled s) ++ rest) (s :: seen)
      end
    end.

  Definition explore_all (fuel : nat) : option (list mstate) := explore fuel [erase (init_state)] [].
End Explore.
