(* The trace is write-only: erasing it commutes with every transition. Exploration can therefore be done on states
   without history (finitely many), and what it establishes about them holds for the real states. *)
From MLPE Require Import Engine.Run Proofs.ExecLemmas.

Definition erase (st : mstate) : mstate :=
  {| st_store := st_store st; st_adddata := st_adddata st; st_tasks := st_tasks st; st_ready := st_ready st;
     st_waiters := st_waiters st; st_events := st_events st; st_trace := []; st_ctrs := st_ctrs st; st_next := st_next st |}.

Lemma erase_idem st : erase (erase st) = erase st. Proof. reflexivity. Qed.

(* two states that differ at most in their traces *)
Definition eqe (a b : mstate) : Prop := erase a = erase b.

Lemma eqe_fields a b :
  eqe a b -> st_store a = st_store b /\ st_adddata a = st_adddata b /\ st_tasks a = st_tasks b /\ st_ready a = st_ready b
             /\ st_waiters a = st_waiters b /\ st_events a = st_events b /\ st_ctrs a = st_ctrs b /\ st_next a = st_next b.
Proof. unfold eqe, erase. intros H. inversion H. auto 10. Qed.

Lemma eqe_intro a b :
  st_store a = st_store b -> st_adddata a = st_adddata b -> st_tasks a = st_tasks b -> st_ready a = st_ready b ->
  st_waiters a = st_waiters b -> st_events a = st_events b -> st_ctrs a = st_ctrs b -> st_next a = st_next b -> eqe a b.
Proof. unfold eqe, erase. intros -> -> -> -> -> -> -> ->. reflexivity. Qed.

Lemma eqe_refl a : eqe a a. Proof. reflexivity. Qed.
Lemma eqe_erase a : eqe (erase a) a. Proof. reflexivity. Qed.

Ltac eqe_same H :=
  destruct (eqe_fields _ _ H) as (? & ? & ? & ? & ? & ? & ? & ?); apply eqe_intro; cbn; congruence.

Lemma eqe_emit_obs_l o a b : eqe a b -> eqe (emit_obs o a) b. Proof. intros H. eqe_same H. Qed.
Lemma eqe_emit_obs_r o a b : eqe a b -> eqe a (emit_obs o b). Proof. intros H. eqe_same H. Qed.
Lemma eqe_with_store f a b : eqe a b -> eqe (with_store f a) (with_store f b). Proof. intros H. eqe_same H. Qed.
Lemma eqe_bump c a b : eqe a b -> eqe (bump c a) (bump c b).
Proof.
  intros H. destruct (eqe_fields _ _ H) as (? & ? & ? & ? & ? & ? & HC & ?). apply eqe_intro; cbn; try congruence.
  unfold ctr_get. rewrite HC. reflexivity.
Qed.
Lemma eqe_set_adddata k v a b : eqe a b -> eqe (set_adddata k v a) (set_adddata k v b). Proof. intros H. eqe_same H. Qed.
Lemma eqe_push_ready t a b : eqe a b -> eqe (push_ready t a) (push_ready t b). Proof. intros H. eqe_same H. Qed.
Lemma eqe_set_waiters w a b : eqe a b -> eqe (set_waiters w a) (set_waiters w b). Proof. intros H. eqe_same H. Qed.
Lemma eqe_set_tstate t ts a b : eqe a b -> eqe (set_tstate t ts a) (set_tstate t ts b). Proof. intros H. eqe_same H. Qed.
Lemma eqe_add_event n a b : eqe a b -> eqe (add_event n a) (add_event n b). Proof. intros H. eqe_same H. Qed.
Lemma eqe_dequeue a b : eqe a b -> eqe (dequeue a) (dequeue b). Proof. intros H. eqe_same H. Qed.
Lemma eqe_spawn nm h k a b : eqe a b -> eqe (fst (spawn nm h k a)) (fst (spawn nm h k b)) /\ snd (spawn nm h k a) = snd (spawn nm h k b).
Proof. intros H. destruct (eqe_fields _ _ H) as (? & ? & ? & ? & ? & ? & ? & ?). split; [apply eqe_intro; cbn; congruence|cbn; congruence]. Qed.

Lemma eqe_wake t sg a b : eqe a b -> eqe (wake t sg a) (wake t sg b).
Proof.
  intros H. unfold wake. destruct (eqe_fields _ _ H) as (? & ? & HT & ?). rewrite HT.
  destruct (find_task t (st_tasks b)) as [[i nm [k s|w k|r] h]|]; try exact H. apply eqe_push_ready, eqe_set_tstate, H.
Qed.

Lemma eqe_wake_all w sg a b : eqe a b -> eqe (wake_all w sg a) (wake_all w sg b).
Proof.
  intros H. unfold wake_all. destruct (eqe_fields _ _ H) as (? & ? & ? & ? & HW & ?). rewrite HW.
  generalize (filter (fun p : wait * tid => wait_eqb (fst p) w) (st_waiters b)). intros hit.
  assert (G : eqe (set_waiters (filter (fun p : wait * tid => negb (wait_eqb (fst p) w)) (st_waiters b)) a)
                  (set_waiters (filter (fun p : wait * tid => negb (wait_eqb (fst p) w)) (st_waiters b)) b)) by (apply eqe_set_waiters, H).
  revert G. generalize (set_waiters (filter (fun p : wait * tid => negb (wait_eqb (fst p) w)) (st_waiters b)) a).
  generalize (set_waiters (filter (fun p : wait * tid => negb (wait_eqb (fst p) w)) (st_waiters b)) b).
  induction hit as [|p r IH]; intros y x G; cbn [fold_left]; [exact G|]. apply IH. apply eqe_wake. exact G.
Qed.

Lemma eqe_notify c a b : eqe a b -> eqe (notify c a) (notify c b). Proof. apply eqe_wake_all. Qed.
Lemma eqe_notify_keys ks a b : eqe a b -> eqe (notify_keys ks a) (notify_keys ks b).
Proof. unfold notify_keys. revert a b. induction ks as [|k r IH]; intros a b H; cbn [fold_left]; [exact H|]. apply IH, eqe_notify, H. Qed.
Lemma eqe_set_event n a b : eqe a b -> eqe (set_event n a) (set_event n b).
Proof.
  intros H. change (set_event n a) with (wake_all (WEvent n) SGo (add_event n a)).
  change (set_event n b) with (wake_all (WEvent n) SGo (add_event n b)). apply eqe_wake_all, eqe_add_event, H.
Qed.
Lemma eqe_cancel_task t a b : eqe a b -> eqe (cancel_task t a) (cancel_task t b).
Proof.
  intros H. unfold cancel_task. destruct (eqe_fields _ _ H) as (? & ? & HT & ? & HW & ?). rewrite HT, HW.
  destruct (find_task t (st_tasks b)) as [[i nm [k s|w k|r] h]|]; try exact H.
  - apply eqe_set_tstate, H.
  - apply eqe_push_ready, eqe_set_tstate, eqe_set_waiters, H.
Qed.
Lemma eqe_cancel_tasks ts a b : eqe a b -> eqe (cancel_tasks ts a) (cancel_tasks ts b).
Proof. unfold cancel_tasks. revert a b. induction ts as [|t r IH]; intros a b H; cbn [fold_left]; [exact H|]. apply IH, eqe_cancel_task, H. Qed.
Lemma eqe_finally_a n a b : eqe a b -> eqe (finally_a n a) (finally_a n b).
Proof. intros H. unfold finally_a. apply eqe_notify, eqe_set_event, H. Qed.
Lemma eqe_finally_b P d n a b : eqe a b -> eqe (finally_b P d n a) (finally_b P d n b).
Proof.
  intros H. unfold finally_b. destruct (key_eqb n (d_dst d)).
  - apply eqe_notify, eqe_notify, eqe_notify_keys, eqe_set_event, H.
  - apply eqe_notify, eqe_notify_keys, eqe_set_event, H.
Qed.
Lemma eqe_fold_hide (l : list key) a b :
  eqe a b -> eqe (fold_left (fun s k => emit_obs (OHide k) s) l a) (fold_left (fun s k => emit_obs (OHide k) s) l b).
Proof. revert a b. induction l as [|k r IH]; intros a b H; cbn [fold_left]; [exact H|]. apply IH, eqe_emit_obs_l, eqe_emit_obs_r, H. Qed.
Lemma eqe_suspend t w k a b : eqe a b -> eqe (suspend t w k a) (suspend t w k b).
Proof. intros H. unfold suspend. destruct (eqe_fields _ _ H) as (? & ? & ? & ? & HW & ?). rewrite HW. apply eqe_set_waiters, eqe_set_tstate, H. Qed.
Lemma eqe_abort P a b : eqe a b -> eqe (abort P a) (abort P b).
Proof. intros H. destruct (eqe_fields _ _ H) as (? & ? & ? & ? & ? & ? & ? & ?). apply eqe_intro; cbn; congruence. Qed.

Ltac eqe_prims :=
  repeat first
         [ assumption
         | apply eqe_notify | apply eqe_notify_keys | apply eqe_set_event | apply eqe_cancel_tasks | apply eqe_cancel_task
         | apply eqe_finally_a | apply eqe_finally_b | apply eqe_fold_hide | apply eqe_wake_all
         | apply eqe_with_store | apply eqe_bump | apply eqe_set_adddata | apply eqe_push_ready
         | (apply eqe_emit_obs_l; apply eqe_emit_obs_r) ].

Section Erase.
  Variable P : prog.

  (* the observers step_frame uses see the same thing in both states *)
  Lemma eqe_observers a b :
    eqe a b ->
    run_pred P a = run_pred P b /\ task_errors a = task_errors b /\ helper_tids a = helper_tids b
    /\ (forall n, node_kwargs P a n = node_kwargs P b n) /\ (forall n, event_is_set n a = event_is_set n b)
    /\ (forall c, ctr_get c a = ctr_get c b).
  Proof.
    intros H. destruct (eqe_fields _ _ H) as (HS & HA & HT & HR & HW & HE & HC & HN).
    unfold run_pred, task_errors, helper_tids, node_kwargs, event_is_set, ctr_get. rewrite HS, HA, HT, HE, HC. auto 10.
  Qed.

  Lemma step_frame_eqe t fr sg a b :
    eqe a b ->
    eqe (fst (step_frame P t fr sg a)) (fst (step_frame P t fr sg b))
    /\ snd (step_frame P t fr sg a) = snd (step_frame P t fr sg b).
  Proof.
    intros H. destruct (eqe_observers a b H) as (Hrun & Hte & Hht & Hkw & Hev & Hctr).
    destruct (eqe_fields _ _ H) as (HS & HA & HT & HR & HW & HE & HC & HN).
    destruct fr; destruct sg; cbn [step_frame]; unfold default_or_raise, reduced;
      rewrite ?Hrun, ?Hte, ?Hht, ?Hkw, ?Hev, ?Hctr, ?HS;
      repeat first
             [ match goal with
               | |- context [spawn ?nm ?h ?k a] =>
                 lazymatch k with
                 | context [match _ with _ => _ end] => fail
                 | _ =>
                   let Hs := fresh "Hs" in
                   let Ht := fresh "Ht" in
                   destruct (eqe_spawn nm h k a b H) as [Hs Ht];
                   destruct (spawn nm h k a) as [? ?]; destruct (spawn nm h k b) as [? ?]; cbn [fst snd] in Hs, Ht; subst
                 end
               end
             | break_match ];
      cbn [fst snd]; unfold helper_tids; cbn [emit_obs st_tasks]; rewrite ?HT; (split; [eqe_prims|reflexivity]).
  Qed.
End Erase.

Section EraseRun.
  Variable P : prog.

  Lemma exec_eqe fuel t k sg a b : eqe a b -> eqe (exec P fuel t k sg a) (exec P fuel t k sg b).
  Proof.
    revert k sg a b. induction fuel as [|f IH]; intros k sg a b H; destruct k as [|fr rest]; cbn [exec].
    - apply eqe_set_tstate, H.
    - apply eqe_abort, H.
    - apply eqe_set_tstate, H.
    - destruct (step_frame_eqe P t fr sg a b H) as [H1 H2].
      destruct (step_frame P t fr sg a) as [a1 da]. destruct (step_frame P t fr sg b) as [b1 db]. cbn [fst snd] in *. subst db.
      destruct da as [w k'|k'|k' sg'|sg'].
      + apply eqe_suspend, H1.
      + apply eqe_push_ready, eqe_set_tstate, H1.
      + apply IH, H1.
      + apply IH, H1.
  Qed.

  Lemma loop_step_eqe a b : eqe a b -> eqe (loop_step P a) (loop_step P b).
  Proof.
    intros H. rewrite !loop_step_unfold. destruct (eqe_fields _ _ H) as (_ & _ & HT & HR & _). rewrite HR, HT.
    destruct (st_ready b) as [|t rest]; [exact H|]. destruct (find_task t (st_tasks b)) as [x|]; [|apply eqe_dequeue, H].
    destruct (t_state x) as [k sg|w k|r]; [apply exec_eqe, eqe_dequeue, H|apply eqe_dequeue, H|apply eqe_dequeue, H].
  Qed.

  Lemma quiesce_eqe fuel a b : eqe a b -> eqe (quiesce P fuel a) (quiesce P fuel b).
  Proof.
    revert a b. induction fuel as [|f IH]; intros a b H; cbn [quiesce]; [exact H|].
    destruct (eqe_fields _ _ H) as (_ & _ & _ & HR & _). rewrite HR. destruct (st_ready b); [exact H|]. apply IH, loop_step_eqe, H.
  Qed.

  Lemma apply_action_eqe act a b : eqe a b -> eqe (apply_action P act a) (apply_action P act b).
  Proof.
    intros H. destruct act as [| |g|]; cbn [apply_action].
    - apply loop_step_eqe, H.
    - apply quiesce_eqe, H.
    - unfold complete_gate. apply eqe_wake_all, H.
    - apply eqe_cancel_task, H.
  Qed.

  (* the transition system on states without history *)
  Definition astep (act : action) (s : mstate) : mstate := erase (apply_action P act s).

  (* schedules with (wc = true) or without (wc = false) a cancellation by the caller *)
  Definition act_ok (wc : bool) (act : action) : bool := match act with ACancel => wc | _ => true end.

  Inductive reachable_by (wc : bool) : mstate -> Prop :=
  | rb_init : reachable_by wc (init_state)
  | rb_step st act : reachable_by wc st -> act_ok wc act = true -> reachable_by wc (apply_action P act st).

  Lemma reachable_by_reachable wc st : reachable_by wc st -> reachable P st.
  Proof. intros H. induction H; [constructor|constructor; assumption]. Qed.
  Lemma reachable_by_true st : reachable P st -> reachable_by true st.
  Proof. intros H. induction H; [constructor|constructor; [assumption|destruct a; reflexivity]]. Qed.

  Lemma run_sched_reachable_by wc sched :
    forallb (act_ok wc) sched = true -> reachable_by wc (run_sched P sched).
  Proof.
    unfold run_sched. generalize (rb_init wc). generalize (init_state).
    induction sched as [|a r IH]; cbn [fold_left forallb]; intros s Hs H; [exact Hs|].
    apply andb_true_iff in H. destruct H as [Ha Hr]. apply IH; [constructor; assumption|exact Hr].
  Qed.

  Inductive reachable_e (wc : bool) : mstate -> Prop :=
  | re_init : reachable_e wc (erase (init_state))
  | re_step s act : reachable_e wc s -> act_ok wc act = true -> reachable_e wc (astep act s).

  Theorem reachable_erase wc st : reachable_by wc st -> reachable_e wc (erase st).
  Proof.
    intros H. induction H as [|st act H IH Hok]; [constructor|].
    replace (erase (apply_action P act st)) with (astep act (erase st)); [constructor; assumption|].
    unfold astep. apply (apply_action_eqe act (erase st) st). apply eqe_erase.
  Qed.
End EraseRun.
