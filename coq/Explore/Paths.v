(* Not used by any theorem: the exploration of Explore/Explorer.v done breadth first, returning for EVERY transition of
   the explored, history-free state graph an action list that takes it from the initial state. The harness drives the real
   engine through every one of them and compares with the model (exhaustive correspondence on catalogue programs). *)
From MLPE Require Import Engine.Run Explore.StateEq Explore.Erase Explore.Explorer.

Section Paths.
  Variable P : prog.
  Variable wc : bool.

  Fixpoint explore_paths (fuel : nat) (todo : list (mstate * list action)) (seen : list mstate) (acc : list (list action))
    : option (list (list action)) :=
    match fuel with
    | O => None
    | S f =>
      match todo with
      | [] => Some acc
      | (s, p) :: rest =>
        if memb s seen then explore_paths f rest seen acc
        else let succ := map (fun a => (astep P a s, p ++ [a])) (enabled wc s) in
             explore_paths f (rest ++ succ) (s :: seen) (map snd succ ++ acc)
      end
    end.
End Paths.
