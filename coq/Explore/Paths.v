(* Not used by any theorem: the exploration of Explore/Explorer.v done breadth first, returning for EVERY transition of
   the explored, history-free state graph an action list that takes it from the initial state. The harness drives the real
   engine through every one of them and compares with the model (exhaustive correspondence on catalogue programs). *)
From MLPE Require Import Engine.Run Explore.StateEq Explore.Erase Explore.Explorer.

Section Paths.
  Variable P : prog.
  Variable wc : bool.

  Fixpoint explore_paths (fuel : nat) (todo : list (mstate * list action)) (seen : list mstate) (acc : list (list action))
    : option (list (list action)) :=
    match fuel with
    | O => None
    | S f =>
      match todo with
      | [] => Some acc
      | (s, p) :: rest =>
        if memb s seen then explore_paths f rest seen acc
        else let succ := map (fun a => (astep P a s, p ++ [a])) (enabled wc s) in
             explore_paths f (rest ++ succ) (s :: seen) (map snd succ ++ acc)
      end
    end.
End Paths.

(* breadth-first search for a reachable history-free state violating [safe]; returns an action list reaching it *)
Section Find.
  Variable P : prog.
  Variable wc : bool.
  Variable safe : mstate -> bool.

  Fixpoint find_unsafe (fuel : nat) (todo : list (mstate * list action)) (seen : list mstate) (count : nat)
    : option (nat * option (list action)) :=
    match fuel with
    | O => None
    | S f =>
      match todo with
      | [] => Some (count, None)
      | (s, p) :: rest =>
        if memb s seen then find_unsafe f rest seen count
        else if negb (safe s) then Some (S count, Some p)
             else let succ := map (fun a => (astep P a s, p ++ [a])) (enabled wc s) in
                  find_unsafe f (rest ++ succ) (s :: seen) (S count)
      end
    end.
End Find.
