(* Safety predicates decided on history-free states, the reference semantics they are compared with, and the one-line
   certificate [certify]: explore, re-check closure, check the predicate on every state of the set. *)
From MLPE Require Import Engine.Run Spec.Dataflow Spec.Fragments Proofs.ExecLemmas Explore.StateEq Explore.Erase Explore.Explorer.

Definition aborted (st : mstate) : bool :=
  existsb (fun t => match t_state t with TDone (SThrow (XEng EOutOfFuel _)) => true | _ => false end) (st_tasks st).

Definition cause_matches (e : exn) (c : cause) : bool :=
  match e, c with
  | XNode cl i a, Dataflow.CNode cl' i' a' => exc_cls_eqb cl cl' && Nat.eqb i i' && Nat.eqb a a'
  | XEng EOneOfNoResult _, COneOf _ _ => true
  | XEng ERecNoResult _, CRec _ => true
  | XEng ESwitchNoBranch _, CSwitch _ _ => true
  | _, _ => false
  end.

Section Safe.
  Variable P : prog.

  Definition ref_eval : estate * res := eval_output (p_decls P) (p_body P) (p_input P) (p_inp P) (p_out P).
  Definition ref_res : res := snd ref_eval.
  Definition ref_log : list exec_rec := e_log (fst ref_eval).

  (* final failures of nodes in the reference evaluation *)
  Definition final_failure (e : exn) : bool :=
    existsb (fun x => match x_result x with RFail cs => existsb (cause_matches e) cs | ROk _ => false end) ref_log.

  (* C01 / C05: what PipelineChart.run may end with *)
  Definition outcome_ok (allow_cancel : bool) (r : signal) : bool :=
    match r with
    | SVal v => match ref_res with ROk v' => value_seqb v v' | RFail _ => false end
    | SResErr e => match ref_res with
                   | RFail cs => existsb (cause_matches e) cs && is_Exception e
                   | ROk _ => false
                   end
    | SThrow XCancelled => allow_cancel
    | SThrow e => match ref_res with
                  | RFail cs => existsb (cause_matches e) cs && negb (is_Exception e)     (* a propagated BaseException *)
                  | ROk _ => false
                  end
    | _ => false
    end.

  Definition safe_outcome (allow_cancel : bool) (st : mstate) : bool :=
    match main_state st with
    | Some (TDone r) => outcome_ok allow_cancel r
    | _ => true
    end.

  Definition safe_live (st : mstate) : bool := negb (deadlocked st) && negb (aborted st).

  (* C04 / C09 / C10 / C11: no body is invoked more often than the reference evaluation invokes it *)
  Definition ref_invocations (i : nat) : nat :=
    fold_left (fun acc x => if Nat.eqb (x_node x) i then acc + x_attempts x else acc) ref_log 0.
  Definition safe_counts (st : mstate) : bool :=
    forallb (fun ck => match fst ck with
                       | CBody i => Nat.leb (snd ck) (ref_invocations i)
                       | _ => true
                       end) (st_ctrs st).

  (* C03: every body invocation in flight or about to happen carries keyword arguments the reference passes to that node *)
  Definition ref_kwargs_ok (i : nat) (kw : kwargs) : bool :=
    existsb (fun x => Nat.eqb (x_node x) i && list_eqb (prod_eqb Nat.eqb value_seqb) kw (x_kw x)) ref_log.
  Definition frame_kwargs_ok (f : frame) : bool :=
    match f with
    | FRetry i _ kw _ | FRetryAfterBody i kw _ | FRetryAfterEmit i kw _ | FRetryAfterSleep i kw _ => ref_kwargs_ok i kw
    | _ => true
    end.
  Definition safe_kwargs (st : mstate) : bool :=
    forallb (fun t => match t_state t with
                      | TReady k _ | TWait _ k => forallb frame_kwargs_ok k
                      | TDone _ => true
                      end) (st_tasks st).

  (* C19: no artifact is saved twice, and what is being saved is a value, not a marker or a failure *)
  Definition safe_saves (st : mstate) : bool :=
    forallb (fun ck => match fst ck with CSave _ => Nat.leb (snd ck) 1 | _ => true end) (st_ctrs st)
    && forallb (fun t => match t_state t with
                         | TReady k _ | TWait _ k => forallb (fun f => match f with FSave _ v _ _ => negb (is_rec v || is_exn v) | _ => true end) k
                         | TDone _ => true
                         end) (st_tasks st).

  Definition safe_all (allow_cancel : bool) (st : mstate) : bool :=
    safe_live st && safe_outcome allow_cancel st && safe_counts st && safe_kwargs st.

  (* C17: a needed pool is missing: the run ends with the pool error (or the caller's cancellation) and no body is ever invoked *)
  Definition safe_nopool (st : mstate) : bool :=
    safe_live st
    && match main_state st with
       | Some (TDone (SResErr (XEng EPoolNotReady _))) | Some (TDone (SThrow XCancelled)) => true
       | Some (TDone _) => false
       | _ => true
       end
    && forallb (fun ck => match fst ck with CBody _ | CSave _ | CSleep _ => false | CEmit _ _ _ => true end) (st_ctrs st).

  (* C14 on counters (non-raising managers): pipeline_start is the first callback of manager 0 and happens once; pipeline_complete
     happens at most once per manager, and once it has happened every helper task is finished or cancelled (so nothing but the
     remaining pipeline_complete callbacks can follow, by C13); a node gets at most one on_node_start per execution and at
     most one on_node_complete per attempt of the reference (plus one for a forced default) *)
  (* executions of node i in the reference: ordinary ones and the forced get_default after the iterations of a recurrent
     subgraph are exhausted (an execution without body invocation: it still reports on_node_start / on_node_complete) *)
  Definition ref_executions (i : nat) : nat := length (filter (fun x => Nat.eqb (x_node x) i) ref_log).
  Definition ref_forced_defaults (i : nat) : nat :=
    length (filter (fun x => Nat.eqb (x_node x) i && Nat.eqb (x_attempts x) 0) ref_log).
  Definition helpers_over (st : mstate) : bool :=
    forallb (fun t => negb (t_helper t) || match t_state t with TDone _ | TReady _ (SThrow XCancelled) => true | _ => false end) (st_tasks st).
  Definition safe_events (st : mstate) : bool :=
    forallb (fun ck => match fst ck with
                       | CEmit m EvPipelineStart None => Nat.leb (snd ck) 1
                       | CEmit m EvPipelineComplete None => Nat.leb (snd ck) 1 && helpers_over st
                       | CEmit m EvNodeStart (Some (KN i)) => Nat.leb (snd ck) (ref_executions i)
                       | CEmit m EvNodeComplete (Some (KN i)) => Nat.leb (snd ck) (ref_invocations i + ref_forced_defaults i)
                       | CEmit _ _ _ => false
                       | _ => true
                       end) (st_ctrs st)
    && (Nat.eqb (p_mgrs P) 0
        || match st_ctrs st with [] => true | _ => Nat.eqb (ctr_get (CEmit 0 EvPipelineStart None) st) 1 end).

  (* C06 (plain DAGs): at a quiescent point of a run that is still undecided, every node whose depth does not exceed the
     smallest depth of a node without a result has been started (marked processed): the launcher never waits for a sibling *)
  Definition G_ := b_graph (build (p_decls P) (p_inp P) (p_out P)).
  Fixpoint node_depth (fuel : nat) (n : key) : nat :=
    match fuel with
    | O => 0
    | S f => match preds G_ n with
             | [] => 0
             | ps => S (fold_left Nat.max (map (node_depth f) ps) 0)
             end
    end.
  Definition depth_of (n : key) : nat := node_depth (length (g_nodes G_)) n.
  Definition safe_c06 (st : mstate) : bool :=
    match st_ready st, main_state st, task_errors st with
    | [], Some (TWait (WCond CRun) _), [] =>
      (* completed = result stored AND the node task went through its `finally` (artifact saved, successors notified) *)
      let pending := filter (fun n => negb (exists_result n (st_store st) && event_is_set n st)) (node_keys G_) in
      match pending with
      | [] => true
      | n0 :: r =>
        let dmin := fold_left Nat.min (map depth_of r) (depth_of n0) in
        forallb (fun n => Nat.ltb dmin (depth_of n) || exists_processed n (st_store st)) (node_keys G_)
      end
    | _, _, _ => true
    end.

  (* ---- the certificate ------------------------------------------------------------------------- *)
  Definition erased_all (R : list mstate) : bool := forallb (fun s => match st_trace s with [] => true | _ => false end) R.

  (* no chain of loop steps without an external completion is longer than n *)
  Definition safe_quiesce (n : nat) (st : mstate) : bool :=
    match st_ready (quiesce P n st) with [] => true | _ => false end.

  Definition quiesce_bound : nat := 300.
  (* everything at once (programs without collaborator faults) / liveness only (with collaborator faults) *)
  Definition safe_full (allow_cancel : bool) (st : mstate) : bool :=
    safe_all allow_cancel st && safe_saves st && safe_quiesce quiesce_bound st && safe_events st
    && (negb (frag_Plain (p_decls P)) || safe_c06 st).
  Definition safe_term (st : mstate) : bool := safe_live st && safe_quiesce quiesce_bound st.

  Definition certify (wc : bool) (fuel : nat) (safe : mstate -> bool) : bool :=
    match explore_all P wc fuel with
    | Some R => memb (erase (init_state)) R && closed P wc R && erased_all R && forallb safe R
    | None => false
    end.

  Theorem certify_sound wc fuel safe :
    certify wc fuel safe = true -> forall st, reachable_by P wc st -> safe (erase st) = true.
  Proof.
    unfold certify. destruct (explore_all P wc fuel) as [R|]; [|discriminate]. intros H st Hr.
    apply andb_true_iff in H. destruct H as [H H4]. apply andb_true_iff in H. destruct H as [H H3].
    apply andb_true_iff in H. destruct H as [H1 H2].
    exact (explored_safe P wc R H1 H2 H3 safe H4 st Hr).
  Qed.

  Definition explored_states (wc : bool) (fuel : nat) : nat := match explore_all P wc fuel with Some R => length R | None => 0 end.

  Lemma safe_quiesce_erase n st : safe_quiesce n (erase st) = safe_quiesce n st.
  Proof.
    unfold safe_quiesce. pose proof (quiesce_eqe P n (erase st) st (eqe_erase st)) as H.
    destruct (eqe_fields _ _ H) as (_ & _ & _ & HR & _). rewrite HR. reflexivity.
  Qed.

  (* the predicates do not look at the trace *)
  Lemma safe_live_erase st : safe_live (erase st) = safe_live st. Proof. reflexivity. Qed.
  Lemma safe_outcome_erase c st : safe_outcome c (erase st) = safe_outcome c st. Proof. reflexivity. Qed.
  Lemma safe_counts_erase st : safe_counts (erase st) = safe_counts st. Proof. reflexivity. Qed.
  Lemma safe_kwargs_erase st : safe_kwargs (erase st) = safe_kwargs st. Proof. reflexivity. Qed.
  Lemma safe_saves_erase st : safe_saves (erase st) = safe_saves st. Proof. reflexivity. Qed.
  Lemma safe_all_erase c st : safe_all c (erase st) = safe_all c st. Proof. reflexivity. Qed.
End Safe.
