(* Small list / association-list utilities. Stdlib only. *)
From Coq Require Export List Arith ZArith Bool Lia.
Export ListNotations.

Section Assoc.
  Context {K V : Type} (eqb : K -> K -> bool).

  Fixpoint alookup (k : K) (l : list (K * V)) : option V :=
    match l with
    | [] => None
    | (k', v) :: r => if eqb k k' then Some v else alookup k r
    end.

  Fixpoint aset (k : K) (v : V) (l : list (K * V)) : list (K * V) :=
    match l with
    | [] => [(k, v)]
    | (k', v') :: r => if eqb k k' then (k, v) :: r else (k', v') :: aset k v r
    end.

  Fixpoint aremove (k : K) (l : list (K * V)) : list (K * V) :=
    match l with
    | [] => []
    | (k', v') :: r => if eqb k k' then aremove k r else (k', v') :: aremove k r
    end.
End Assoc.

Section Mem.
  Context {K : Type} (eqb : K -> K -> bool).

  Fixpoint mem (k : K) (l : list K) : bool :=
    match l with
    | [] => false
    | k' :: r => if eqb k k' then true else mem k r
    end.

  Definition add_set (k : K) (l : list K) : list K := if mem k l then l else l ++ [k].

  Fixpoint remove_all (k : K) (l : list K) : list K :=
    match l with
    | [] => []
    | k' :: r => if eqb k k' then remove_all k r else k' :: remove_all k r
    end.

  Definition subset (a b : list K) : bool := forallb (fun x => mem x b) a.

  Fixpoint dedup (l : list K) : list K :=
    match l with
    | [] => []
    | k :: r => if mem k r then dedup r else k :: dedup r
    end.
End Mem.

Lemma mem_true_iff {K} (eqb : K -> K -> bool)
      (eqb_spec : forall a b, eqb a b = true <-> a = b) k l :
  mem eqb k l = true <-> In k l.
Proof.
  induction l as [|x r IH]; simpl; [split; [discriminate|tauto]|].
  destruct (eqb k x) eqn:E.
  - apply eqb_spec in E. subst. tauto.
  - rewrite IH. split; [tauto|]. intros [H|H]; [|assumption].
    subst. assert (eqb k k = true) by (apply eqb_spec; reflexivity). congruence.
Qed.

Fixpoint nth_opt {A} (l : list A) (n : nat) : option A :=
  match l, n with
  | [], _ => None
  | x :: _, O => Some x
  | _ :: r, S m => nth_opt r m
  end.

Fixpoint count_occ_b {A} (f : A -> bool) (l : list A) : nat :=
  match l with
  | [] => 0
  | x :: r => (if f x then 1 else 0) + count_occ_b f r
  end.

Fixpoint seq_from (s n : nat) : list nat :=
  match n with O => [] | S m => s :: seq_from (S s) m end.
