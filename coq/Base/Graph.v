(* Attributed digraph as the builder produces it and the run manager reads it. *)
From MLPE Require Export Spec.Values.

Record nattr := { na_switch : bool; na_head : bool; na_child : bool; na_cands : list key;
                  na_start : option key; na_maxit : option nat }.
Definition nattr0 : nattr :=
  {| na_switch := false; na_head := false; na_child := false; na_cands := []; na_start := None; na_maxit := None |}.

Record eattr := { ea_kwarg : option pname; ea_is_switch : bool; ea_case : option nat }.
Definition eattr0 : eattr := {| ea_kwarg := None; ea_is_switch := false; ea_case := None |}.

Definition edge := (key * key)%type.
Definition edge_eqb (a b : edge) : bool := key_eqb (fst a) (fst b) && key_eqb (snd a) (snd b).

Record graph := { g_nodes : list (key * nattr); g_edges : list (edge * eattr) }.
Definition graph0 : graph := {| g_nodes := []; g_edges := [] |}.

(* networkx add_node(k, **attrs): create if missing, then update the attribute dict *)
Definition add_node (k : key) (upd : nattr -> nattr) (g : graph) : graph :=
  let cur := match alookup key_eqb k (g_nodes g) with Some a => a | None => nattr0 end in
  {| g_nodes := aset key_eqb k (upd cur) (g_nodes g); g_edges := g_edges g |}.

Definition touch_node (k : key) (g : graph) : graph := add_node k (fun a => a) g.

(* networkx add_edge(u, v, **attrs): endpoints are created if missing; attributes are merged *)
Definition add_edge (u v : key) (upd : eattr -> eattr) (g : graph) : graph :=
  let g1 := touch_node v (touch_node u g) in
  let cur := match alookup edge_eqb (u, v) (g_edges g1) with Some a => a | None => eattr0 end in
  {| g_nodes := g_nodes g1; g_edges := aset edge_eqb (u, v) (upd cur) (g_edges g1) |}.

Definition node_keys (g : graph) : list key := map fst (g_nodes g).
Definition has_node (g : graph) (k : key) : bool := mem key_eqb k (node_keys g).
Definition nattr_of (g : graph) (k : key) : nattr :=
  match alookup key_eqb k (g_nodes g) with Some a => a | None => nattr0 end.
Definition is_switch (g : graph) (k : key) : bool := na_switch (nattr_of g k).
Definition is_head (g : graph) (k : key) : bool := na_head (nattr_of g k).
Definition is_child (g : graph) (k : key) : bool := na_child (nattr_of g k).

(* graph.predecessors(k): the DAG handed to the run manager is a copy of the graph the builder filled (builder.py: graph=self._dag.copy()),
   and a copy re-inserts the edges source by source in node order, so the predecessors of k come in the order of the node table *)
Definition preds_e (g : graph) (k : key) : list (key * eattr) :=
  flat_map (fun u => match alookup edge_eqb (u, k) (g_edges g) with Some a => [(u, a)] | None => [] end) (map fst (g_nodes g)).
Definition preds (g : graph) (k : key) : list key := map fst (preds_e g k).
Definition succs (g : graph) (k : key) : list key :=
  flat_map (fun e => if key_eqb (fst (fst e)) k then [snd (fst e)] else []) (g_edges g).

(* ---- views and reduced DAGs ------------------------------------------------------------- *)
(* A view keeps a node filter and an edge filter over the one shared graph. *)
Record view := { v_node_ok : key -> bool; v_edge_ok : eattr -> bool }.

Definition vsuccs (g : graph) (vw : view) (k : key) : list key :=
  flat_map (fun e => if key_eqb (fst (fst e)) k && v_edge_ok vw (snd e) && v_node_ok vw (snd (fst e))
                     then [snd (fst e)] else []) (g_edges g).
Definition vpreds (g : graph) (vw : view) (k : key) : list key :=
  flat_map (fun e => if key_eqb (snd (fst e)) k && v_edge_ok vw (snd e) && v_node_ok vw (fst (fst e))
                     then [fst (fst e)] else []) (g_edges g).

(* nodes reachable from the frontier within [fuel] rounds (fuel = number of nodes suffices) *)
Fixpoint reach_from (next : key -> list key) (fuel : nat) (seen frontier : list key) : list key :=
  match fuel with
  | O => seen
  | S f =>
    let new := dedup key_eqb (filter (fun k => negb (mem key_eqb k seen)) (flat_map next frontier)) in
    match new with
    | [] => seen
    | _ => reach_from next f (seen ++ new) new
    end
  end.

Definition reachable_set (g : graph) (next : key -> list key) (src : key) : list key :=
  reach_from next (length (g_nodes g)) [src] [src].

(* node set of nx.all_simple_paths(view, source, dest): on a DAG, the nodes that are reachable from
   source and reach dest (source = dest gives no path, hence the empty set) *)
Definition path_nodes (g : graph) (vw : view) (src dst : key) : list key :=
  if key_eqb src dst then []
  else if negb (v_node_ok vw src && v_node_ok vw dst && has_node g src && has_node g dst) then []
  else
    let fw := reachable_set g (vsuccs g vw) src in
    let bw := reachable_set g (vpreds g vw) dst in
    filter (fun k => mem key_eqb k fw && mem key_eqb k bw) (node_keys g).

(* A reduced DAG as the manager holds it: eager node set + flags; its edges are the edges of the
   shared graph that pass the view's edge filter and join two of its nodes. *)
Record rdag := { d_nodes : list key; d_src : key; d_dst : key;
                 d_rec : bool; d_oneof : bool; d_nested : bool }.

Definition rdag_eqb (a b : rdag) : bool :=
  key_eqb (d_src a) (d_src b) && key_eqb (d_dst a) (d_dst b) &&
  Bool.eqb (d_rec a) (d_rec b) && Bool.eqb (d_oneof a) (d_oneof b) && Bool.eqb (d_nested a) (d_nested b) &&
  subset key_eqb (d_nodes a) (d_nodes b) && subset key_eqb (d_nodes b) (d_nodes a).

Definition in_dag (d : rdag) (k : key) : bool := mem key_eqb k (d_nodes d).

(* predecessors of k inside the reduced DAG d (the patched _get_node_dependencies) *)
Definition dag_preds (g : graph) (d : rdag) (k : key) : list key :=
  flat_map (fun e => if key_eqb (snd (fst e)) k && in_dag d (fst (fst e)) && in_dag d k
                        && (d_rec d || match ea_case (snd e) with Some _ => false | None => true end)
                     then [fst (fst e)] else []) (g_edges g).

(* valid topological order of d: a permutation of its nodes in which every in-DAG predecessor precedes *)
Fixpoint index_of (k : key) (l : list key) : option nat :=
  match l with
  | [] => None
  | x :: r => if key_eqb k x then Some 0 else option_map S (index_of k r)
  end.

Definition valid_topo (g : graph) (d : rdag) (order : list key) : bool :=
  subset key_eqb order (d_nodes d) && subset key_eqb (d_nodes d) order &&
  Nat.eqb (length order) (length (dedup key_eqb order)) &&
  forallb (fun k => forallb (fun p => match index_of p order, index_of k order with
                                      | Some a, Some b => Nat.ltb a b
                                      | _, _ => false
                                      end) (dag_preds g d k)) order.
