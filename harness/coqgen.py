"""ProgSpec -> Coq term of type [prog] (default order oracles), for the certified all-schedule exploration."""
import runmodel as M
import progspec as ps

CLS = {'EA': 'EA', 'EB': 'EB', 'EC': 'EC', 'BX': 'BX', 'Exception': 'EExc', 'BaseException': 'EBase'}
MODE = {'gated': 'MGated', 'immediate': 'MImmediate', 'inline': 'MInline', 'thread': 'MThread', 'process': 'MProcess'}
EV = {'pipeline_start': 'EvPipelineStart', 'pipeline_complete': 'EvPipelineComplete', 'node_start': 'EvNodeStart', 'node_complete': 'EvNodeComplete'}


def lst(xs):
    return '[' + '; '.join(xs) + ']'


def opt(x, f=str):
    return 'None' if x is None else '(Some %s)' % f(x)


def key(k):
    if k is None:
        return 'None'
    return {'n': '(KN %d)', 'sw': '(KSw %d %d)', 'oo': '(KOo %d %d)'}[k[0]] % tuple(k[1:])


def mark(m, it):
    if m[0] == 'in':
        return '(MIn %d)' % m[1]
    if m[0] == 'sw':
        return '(MSw %d %s)' % (m[1], lst('(%d, %d)' % (it.id(l), c) for l, c in m[2]))
    if m[0] == 'oneof':
        return '(MOneOf %s)' % lst(str(c) for c in m[1])
    return '(MRec %d %d %d)' % (m[1], m[2], m[3])


def beh(b, it):
    if b == 'ok':
        return 'BOk'
    if b == 'none':
        return 'BNone'
    if b[0] == 'int':
        return '(BInt %d%%Z)' % b[1]
    if b[0] == 'str':
        return '(BStr %d)' % it.id(b[1])
    if b[0] == 'strep':
        return '(BStrEp %s)' % lst(str(it.id(l)) for l in b[1])
    if b[0] == 'receven':
        return '(BRecEven %d)' % b[1]
    return '(BRecur %d)' % b[1]


def rdag(o):
    return ('{| d_nodes := %s; d_src := %s; d_dst := %s; d_rec := %s; d_oneof := %s; d_nested := %s |}'
            % (lst(key(n) for n in o['nodes']), key(o['source']), key(o['dest']), str(bool(o['rec'])).lower(),
               str(bool(o['oneof'])).lower(), str(bool(o['nested'])).lower()))


def order_tables(orders, descs):
    """the launch / successor orders recorded from the real chart, as the two association lists of mk_prog
    (same de-duplication as runmodel.prog_fields)"""
    import json
    seen = {}
    for o in orders or ():
        if o['source'] is None or o['dest'] is None:
            continue
        seen[json.dumps([o['source'], o['dest'], o['rec'], o['oneof'], o['nested'], sorted(map(json.dumps, o['nodes']))])] = o
    ot = lst('(%s, %s)' % (rdag(o), lst(key(n) for n in o['order'])) for o in seen.values())
    st = lst('(%s, %s)' % (key(json.loads(k)), lst(key(n) for n in v)) for k, v in (descs or {}).items())
    return ot.replace('); ({|', ');\n     ({|'), st


def prog_term(spec, orders=None, descs=None, marks_first=False):
    """Coq source of the program (a [prog]) and the interner used for names.
    marks_first: intern the labels inside a parameter's mark before the parameter name, as runmodel.prog_fields does
    (so that the term and the s-expression sent to the extracted driver denote literally the same program)."""
    ps.spec_defaults(spec)
    it = M.Interner()
    decls, behs = [], []
    for nd in spec['nodes']:
        if marks_first:
            pl = []
            for pn, m in nd['params']:
                mk = mark(m, it)
                pl.append('(%d, %s)' % (it.id(pn), mk))
            params = lst(pl)
        else:
            params = lst('(%d, %s)' % (it.id(pn), mark(m, it)) for pn, m in nd['params'])
        delay = None if nd['delay'] is None else int(round(nd['delay'] * 10))
        decls.append('{| ns_params := %s; ns_mode := %s; ns_attempts := %s; ns_delay := %s; ns_excs := %s; ns_default := %s |}'
                     % (params, MODE[nd['mode']], opt(nd['attempts'], lambda z: '%d%%Z' % z), opt(delay),
                        opt(nd['exceptions'], lambda l: lst(CLS[c] for c in l)), 'true' if nd['use_default'] else 'false'))
        behs.append('{| nb_beh := %s; nb_fails := %s |}' % (beh(nd['beh'], it), lst(opt(c, lambda c: CLS[c]) for c in nd['fails'])))
    inp = lst('(%d, VInt %d%%Z)' % (it.id(k), v) for k, v in sorted(spec['input_kwargs'].items()))
    mf = lst('(%s, %s, %d)' % (EV[f[0]], 'None' if f[1] is None else 'Some ' + key(f[1]), f[2]) for f in spec['mgr_faults'])
    sf = lst('(%s, %d)' % (key(f[0]), f[1]) for f in spec['store_faults'])
    store = {'none': 'StNone', 'record': 'StRecord', 'writeonce': 'StWriteOnce'}[spec['store']]
    pools = spec.get('pools', [True, True])
    ot, stb = order_tables(orders, descs)
    term = ('mk_prog\n    %s\n    %s\n    %s %d %s %s %s %s %s\n    %s\n    %s %s %s'
            % (lst(decls).replace('; {|', ';\n     {|'), lst(behs).replace('; {|', ';\n     {|'), inp, spec['managers'],
               'true' if spec['mgr_gated'] else 'false', mf, store, 'true' if spec['store_gated'] else 'false', sf, ot, stb,
               'true' if pools[0] else 'false', 'true' if pools[1] else 'false'))
    return term, it
