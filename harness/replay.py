"""Replay stored cases on the implementation in /repo.
  replay.py corpus <prop>         fixed defects (corpus/defects.jsonl) and known-finding witnesses for a property
  replay.py file <prop> <path>    one replay file written by ./check"""
import json
import os
import sys

HERE = os.path.dirname(os.path.abspath(__file__))
sys.path.insert(0, HERE)
import oracles as O  # noqa: E402
import runimpl as R  # noqa: E402
import runmodel as M  # noqa: E402


def evaluate(model, prop, spec, sched, opts, tag):
    """Run one case and return the problems of `prop` (engine-level oracles + the multi-run ones)."""
    R.ps.spec_defaults(spec)
    obs = R.run_schedule(json.loads(json.dumps(spec)), list(sched), tag=tag, **opts)
    ref = O.reference(model, spec)
    probs = []
    for i in range(len(obs['runs'])):
        P = O.check_run(spec, obs, ref, run_idx=i)
        if prop == 'C14' and spec['managers']:
            P['C14'] = O.check_events(spec, obs, i) + O.check_values_after_complete(spec, obs, i)
        if prop == 'C19':
            P['C19'] = O.check_saves(spec, obs, ref, i)
        if prop in ('C07', 'C08'):
            P[prop] = P['C01'] + P['C02'] + P['C03']
        probs += P.get(prop, [])
    if prop in ('C07', 'C08'):
        if not obs['snapshots_equal']:
            probs.append('the chart changed: %s' % json.dumps(obs.get('snapshot_diff'))[:200])
        for r in obs['runs']:
            if r['input_before'] != r['input_after']:
                probs.append("the caller's input_kwargs changed: %s -> %s" % (json.dumps(r['input_before']), json.dumps(r['input_after'])))
            if r.get('reused_objects'):
                probs.append('node objects were used for more than one invocation: nodes %s' % r['reused_objects'])
    return probs, obs, ref


def main():
    kf_all = json.load(open(os.path.join(HERE, '..', 'known_findings.json')))['findings']
    mode, prop = sys.argv[1], sys.argv[2]
    model = M.Model()
    if mode == 'file':
        case = json.load(open(sys.argv[3]))
        if 'spec' not in case:
            print('this replay names a proof obligation / correspondence, not an input:')
            print(json.dumps(case, indent=1)[:3000])
            sys.exit(1)
        probs, obs, _ = evaluate(model, prop, case['spec'], case.get('actions') or case.get('sched') or [], case.get('opts', {}),
                                 case.get('tag', '_replay'))
        print('verdict=%s outcome=%s' % (obs['verdict'], json.dumps([r['outcome'] for r in obs['runs']])[:300]))
        for p in probs:
            print('PROBLEM: ' + p)
        sys.exit(1 if probs else 0)
    out = dict(regressions=[], known=[], n_fixed=0)
    path = os.path.join(HERE, 'corpus', 'defects.jsonl')
    for line in open(path):
        if not line.strip():
            continue
        r = json.loads(line)
        if prop not in r['properties']:
            continue
        try:
            probs, obs, ref = evaluate(model, prop, r['spec'], r['sched'], r.get('opts', {}), '_' + r['id'])
            # a corpus program may also be an instance of a recorded (open) finding of this property: that is not the fixed defect coming back
            if probs and O.known_instance([f for f in kf_all if prop in f['properties']], ref['flags'], probs):
                probs = []
        except Exception as e:  # noqa: BLE001
            probs = ['harness error: %s: %s' % (type(e).__name__, e)]
        out['n_fixed'] += 1
        if probs:
            out['regressions'].append(dict(id=r['id'], what=r['what'], problems=probs[:4], spec=r['spec'], actions=r['sched'],
                                           opts=r.get('opts', {}), tag='_' + r['id']))
    kf = json.load(open(os.path.join(HERE, '..', 'known_findings.json')))
    for f in kf['findings']:
        if prop not in f['properties'] or 'witness' not in f:
            continue
        if prop in ('C15', 'C16', 'C17', 'C18', 'C20', 'C06'):
            continue     # their witnesses are replayed by the property's own special check
        w = f['witness']
        try:
            probs, obs, _ = evaluate(model, prop, w['spec'], w.get('sched', []), w.get('opts', {}), '_kf_' + f['id'])
        except Exception as e:  # noqa: BLE001
            probs = ['harness error: %s' % e]
        if probs:
            out['known'].append(dict(id=f['id'], what=f['what'] + ' [witness: ' + probs[0][:140] + ']'))
    model.close()
    print(json.dumps(out))


if __name__ == '__main__':
    main()
