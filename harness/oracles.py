"""K1: property oracles evaluated on the *implementation's* observation, against the reference
semantics `eval` extracted from Coq (Spec/Dataflow.v). Each oracle returns a list of problem strings
(empty = the property held on this case)."""
import json

import runmodel as M

FLAG_NAMES = ['Plain', 'Sw', 'OneOfX', 'RecWN', 'wf_basic', 'dup_source', 'odd_switch', 'shared_candidate',
              'switch_in_candidate', 'rec_conflict', 'rec_bad_start', 'rec_outside_reader', 'rec_nonplain_inside',
              'rec_overlap', 'rec_in_scope', 'rec_dest_is_output', 'has_switch', 'has_oneof', 'has_rec']

DOCUMENTED_ERRORS = {'OneOfDoesNotHaveResultError', 'RecurrentSubgraphDoesNotHaveResultError',
                     'SwitchCaseDoesNotHaveBranchError'}


def known_instance(findings, flags, probs):
    """The finding (or None) that all of `probs` are an instance of: its trigger predicate holds for the program and every
    problem is of a kind the finding lists and none of a kind it excludes."""
    import re
    for f in findings:
        if not flags.get(f['trigger']):
            continue
        if any(re.search(nk, p) for nk in f.get('not_kinds', []) for p in probs):
            continue
        if all(any(re.search(k, p) for k in f['kinds']) for p in probs):
            return f
    return None


def reference(model, spec):
    """Evaluate the reference semantics; returns dict(result, log, flags) with real names."""
    it = M.Interner()
    fields, _ = M.prog_fields(spec, it)
    res = model.ask(M.sx(['eval', fields[0], fields[1]]))
    if 'driver_error' in res:
        raise RuntimeError(res['driver_error'])
    names = it.names
    out = dict(flags=dict(zip(FLAG_NAMES, res['flags'])))
    r = res['result']
    out['result'] = ['ok', M.norm_val_model(r[1], names)] if r[0] == 'ok' else ['fail', r[1]]
    out['log'] = [dict(node=x['node'], kw=M.norm_kw_model(x['kw'], names), attempts=x['attempts'], default=x['default'],
                       result=(['ok', M.norm_val_model(x['result'][1], names)] if x['result'][0] == 'ok' else x['result']))
                  for x in res['log']]
    return out


def executions(trace):
    """Group the implementation's body starts into executions per node: consecutive starts of one node with equal
    kwargs are the attempts of one execution."""
    per = {}
    for e in trace:
        if e[0] == 'start':
            lst = per.setdefault(e[1], [])
            if lst and lst[-1]['kw'] == e[3]:
                lst[-1]['attempts'] += 1
            else:
                lst.append(dict(kw=e[3], attempts=1))
    return per


def is_subsequence(small, big, eq):
    j = 0
    for x in small:
        while j < len(big) and not eq(x, big[j]):
            j += 1
        if j == len(big):
            return False
        j += 1
    return True


def contains_bad(v):
    """exception object / engine error / Recurrent marker / foreign object anywhere inside a canonical value"""
    if not isinstance(v, list) or not v:
        return False
    t = v[0]
    if t in ('x', 'ee', 'r', 'py'):
        return True
    if t in ('v', 'd'):
        return any(contains_bad(x) for _, x in v[2])
    if t == 'dict':
        return any(contains_bad(x) for _, x in v[1])
    return False


def check_run(spec, obs, ref, run_idx=0, cancelled_ok=None):
    """All single-run oracles. Returns {property id: [problems]}."""
    run = obs['runs'][run_idx]
    out = run['outcome']
    trace = run['trace']
    P = {k: [] for k in ('C01', 'C02', 'C03', 'C04', 'C05', 'C09', 'C10', 'C11', 'C12', 'C13', 'C14', 'C19')}
    cancel = run['cancel_requested'] if cancelled_ok is None else cancelled_ok
    finished = obs['verdict'] == 'finished'

    # ---- C02 termination
    if obs['verdict'] == 'deadlock':
        P['C02'].append('deadlock: loop idle, nothing outstanding, run pending')
    elif obs['verdict'] == 'steplimit':
        P['C02'].append('step limit exceeded')

    rres = ref['result']
    causes = rres[1] if rres[0] == 'fail' else []
    if obs['verdict'] == 'deadlock' and not cancel:
        # a hang is also a failure of the construct the pipeline is built from: the fallback / the selected branch / the next
        # iteration never happens and nothing is reported
        for pid, flag, what in (('C09', 'has_switch', 'switch'), ('C10', 'has_oneof', 'one-of'), ('C11', 'has_rec', 'recurrent subgraph')):
            if ref['flags'].get(flag):
                P[pid].append('the run hangs: the %s neither yields a value nor reports its documented error' % what)
        P['C01'].append('no outcome under this completion order: the run hangs although the dataflow evaluation gives %s'
                        % ('a value' if rres[0] == 'ok' else 'a failure'))
    # ---- C01 / C05 outcome
    if finished and not cancel:
        if out[0] == 'value':
            if rres[0] != 'ok':
                P['C01'].append('value returned although the reference evaluation fails with %s' % json.dumps(causes)[:120])
                P['C05'].append('value returned when a required node failed')
            elif out[1] != rres[1]:
                P['C01'].append('wrong value: got %s expected %s' % (json.dumps(out[1])[:160], json.dumps(rres[1])[:160]))
        elif out[0] == 'error':
            e = out[1]
            if rres[0] == 'ok':
                P['C01'].append('error %s although the reference evaluation succeeds' % json.dumps(e))
                P['C05'].append('error reported although no required node failed: %s' % json.dumps(e))
            elif e not in causes:
                if e[0] == 'ee' and e[1] not in DOCUMENTED_ERRORS:
                    P['C05'].append('engine-internal artefact reported as the error: %s' % json.dumps(e))
                    P['C01'].append('error is not a root cause: %s' % json.dumps(e))
                elif e[0] == 'x' and any(t[0] == 'start' and t[1] == e[2] for t in trace):
                    # an exception really raised by a node of this run, but not one the reference blames:
                    # admissible for C05 only if that node's failure is final (it is in the log as failed)
                    if not any(x['node'] == e[2] and x['result'][0] == 'fail' for x in ref['log']):
                        P['C05'].append('reported error %s is not a final failure of a required node' % json.dumps(e))
                        P['C01'].append('error is not a root cause: %s' % json.dumps(e))
                else:
                    P['C05'].append('reported error was not raised by a node in this run: %s' % json.dumps(e))
                    P['C01'].append('error is not a root cause: %s' % json.dumps(e))
        elif out[0] == 'raised':
            e = out[1]
            if not (e[0] == 'x' and e[1] in ('BX', 'BaseException') and e in causes):
                P['C05'].append('run raised %s' % json.dumps(e))
                P['C01'].append('run raised %s' % json.dumps(e))
        elif out[0] == 'cancelled':
            P['C05'].append('CancelledError escaped run although nobody cancelled it')
            P['C13'].append('CancelledError escaped run although nobody cancelled it')
            P['C01'].append('run cancelled itself')

    # ---- C03 / C04 / C09 / C10 / C11 / C12 : body invocations vs reference log
    # Per node, the implementation's invocations (in order) must embed into the reference's executions (in order):
    # each reference execution absorbs at most `attempts` consecutive invocations with exactly its arguments.
    starts = {}
    for e in trace:
        if e[0] == 'start':
            starts.setdefault(e[1], []).append(e[3])
    ref_per = {}
    for x in ref['log']:
        if x['attempts'] > 0:
            ref_per.setdefault(x['node'], []).append(x)
    matched = {}      # (node, index in ref_per[node]) -> number of invocations absorbed
    for i, kws in starts.items():
        rl = ref_per.get(i, [])
        for kw in kws:
            if any(contains_bad(v) for _, v in kw):
                P['C03'].append('node %d invoked with a failure object / Recurrent marker: %s' % (i, json.dumps(kw)[:160]))
        if not rl:
            msg = 'node %d executed although the reference semantics never runs it' % i
            for pid in ('C09', 'C10', 'C11'):
                P[pid].append(msg)
            continue
        j = 0
        for kw in kws:
            jj = j
            while jj < len(rl) and not (rl[jj]['kw'] == kw and matched.get((i, jj), 0) < rl[jj]['attempts']):
                jj += 1
            if jj < len(rl):
                matched[(i, jj)] = matched.get((i, jj), 0) + 1
                j = jj
                continue
            if any(x['kw'] == kw for x in rl):
                P['C04'].append('node %d invoked more often than the reference allows with %s' % (i, json.dumps(kw)[:120]))
                P['C12'].append('node %d invoked more often than its policy allows' % i)
                P['C11'].append('node %d re-executed more often than the reference' % i)
            else:
                P['C03'].append('node %d invoked with arguments the reference never passes: %s (reference e.g.: %s)'
                                % (i, json.dumps(kw)[:200], json.dumps(rl[0]['kw'])[:200]))
                P['C11'].append('node %d executed with unexpected arguments' % i)
    if finished and not cancel and out[0] == 'value' and rres[0] == 'ok':
        # completeness on successful runs: every execution whose value is inside the result happened, attempt for attempt
        for i, rl in ref_per.items():
            for jj, x in enumerate(rl):
                if x['result'][0] == 'ok' and occurs(x['result'][1], rres[1]):
                    got = matched.get((i, jj), 0)
                    if got == 0:
                        P['C03'].append('node %d never invoked with the reference arguments %s' % (i, json.dumps(x['kw'])[:160]))
                    elif got != x['attempts']:
                        P['C12'].append('node %d invoked %d times, reference %d' % (i, got, x['attempts']))
    # ---- C12 intrinsic (independent of the reference): a retry gets the arguments of the first attempt
    issub = {('EB', 'EA'), ('EA', 'Exception'), ('EB', 'Exception'), ('EC', 'Exception')}

    def matches(cls, excs):
        excs = excs or ['Exception']
        return any(cls == x or (cls, x) in issub or x == 'BaseException' for x in excs)
    state = {}
    last_start = {}
    for ti, e in enumerate(trace):
        if e[0] == 'raise':
            nd = spec['nodes'][e[1]]
            stt = state.get(e[1])
            if (stt is not None and nd['use_default'] and nd['mode'] in ('gated', 'immediate', 'inline')
                    and e[2] not in ('BX', 'BaseException')
                    and not (matches(e[2], nd['exceptions']) and stt['att'] < (nd['attempts'] or 1))):
                # final failure of a node with a default, raised inside the engine's own coroutine: get_default is the very next thing
                nxt = trace[ti + 1] if ti + 1 < len(trace) else None
                if not (nxt and nxt[0] == 'default' and nxt[1] == e[1] and nxt[2] == stt['kw']):
                    P['C12'].append('node %d: final %s failure (attempt %d) of a node with use_default, but get_default was not called with the arguments of the body'
                                    % (e[1], e[2], stt['att']))
        if e[0] == 'start':
            i = e[1]
            stt = state.get(i)
            if stt and stt['retry_next']:
                if e[3] != stt['kw']:
                    P['C12'].append('node %d: attempt %d invoked with other arguments than attempt 1: %s vs %s'
                                    % (i, stt['att'] + 1, json.dumps(e[3])[:120], json.dumps(stt['kw'])[:120]))
                state[i] = dict(kw=stt['kw'], att=stt['att'] + 1, retry_next=False)
            else:
                state[i] = dict(kw=e[3], att=1, retry_next=False)
        elif e[0] == 'raise':
            i = e[1]
            nd = spec['nodes'][i]
            stt = state.get(i)
            if stt is not None:
                a = nd['attempts'] or 1
                stt['retry_next'] = matches(e[2], nd['exceptions']) and stt['att'] < a
        elif e[0] == 'default':
            stt = state.get(e[1])
            if stt is not None and not (isinstance(spec['nodes'][e[1]]['beh'], list) and spec['nodes'][e[1]]['beh'][0] in ('recur', 'receven')):
                if e[2] != stt['kw']:
                    P['C12'].append('node %d: get_default called with other arguments than the body: %s vs %s'
                                    % (e[1], json.dumps(e[2])[:120], json.dumps(stt['kw'])[:120]))
    # defaults
    idef = [(e[1], e[2]) for e in trace if e[0] == 'default']
    rdef = [(x['node'], x['kw']) for x in ref['log'] if x['default']]
    for d in idef:
        if d not in rdef:
            P['C12'].append('get_default of node %d called with %s, not foreseen by the reference' % (d[0], json.dumps(d[1])[:160]))

    # ---- C13 nothing left
    if obs['leftovers']:
        P['C13'].append('tasks left pending after the run ended and the loop was drained: %s' % obs['leftovers'][:4])
    bad_post = [e for e in run['post_events'] if e[0] in ('start', 'emit', 'save', 'default')]
    if bad_post:
        P['C13'].append('activity after run returned: %s' % json.dumps(bad_post[0])[:160])
    if cancel and finished and out[0] not in ('cancelled',):
        # cancelling may lose the race with normal completion only if the run was already done
        if not run.get('cancel_after_done'):
            if out[0] in ('raised',) or out[0] == 'pending':
                P['C13'].append('cancelled run surfaced %s' % json.dumps(out)[:120])
    return P


def occurs(sub, v):
    if v == sub:
        return True
    if isinstance(v, list):
        return any(occurs(sub, x) for x in v)
    return False


def check_events(spec, obs, run_idx=0):
    """C14: lifecycle event grammar, for non-raising managers."""
    run = obs['runs'][run_idx]
    probs = []
    trace = run['trace']
    out = run['outcome']
    for m in range(spec['managers']):
        ev = [e for e in trace if e[0] == 'emit' and e[1] == m]
        if not ev:
            probs.append('manager %d saw no event' % m)
            continue
        first_idx = next(i for i, e in enumerate(trace) if e[0] in ('emit', 'start', 'save', 'default'))
        if trace[first_idx][0] != 'emit' or trace[first_idx][2] != 'pipeline_start':
            probs.append('pipeline_start is not the first thing that happens')
        if sum(1 for e in ev if e[2] == 'pipeline_start') != 1:
            probs.append('pipeline_start emitted %d times' % sum(1 for e in ev if e[2] == 'pipeline_start'))
        nc = [e for e in ev if e[2] == 'pipeline_complete']
        if out[0] in ('value', 'error'):
            if len(nc) != 1:
                probs.append('pipeline_complete emitted %d times' % len(nc))
            else:
                if ev[-1][2] != 'pipeline_complete':
                    probs.append('events after pipeline_complete: %s' % json.dumps(ev[-1])[:100])
                if nc[0][4] != out:
                    probs.append('pipeline_complete carries %s, run returned %s' % (json.dumps(nc[0][4])[:100], json.dumps(out)[:100]))
                if not run['result_identity']:
                    probs.append('pipeline_complete does not carry the PipelineResult object that run returns')
                last_other = max((i for i, e in enumerate(trace) if e[0] in ('start', 'save', 'default')), default=-1)
                ci = max(i for i, e in enumerate(trace) if e[0] == 'emit' and e[1] == m and e[2] == 'pipeline_complete')
                if last_other > ci:
                    probs.append('node activity after pipeline_complete')
        # per node grammar: start (complete(err))* [complete(None|err)]
        nodes = {json.dumps(e[3]) for e in ev if e[3] is not None}
        for nk in nodes:
            seq = [e for e in ev if e[3] is not None and json.dumps(e[3]) == nk]
            i = 0
            while i < len(seq):
                if seq[i][2] != 'node_start':
                    probs.append('node %s: %s without a preceding node_start' % (nk, seq[i][2]))
                    break
                i += 1
                while i < len(seq) and seq[i][2] == 'node_complete' and seq[i][4] is not None:
                    i += 1
                if i < len(seq) and seq[i][2] == 'node_complete' and seq[i][4] is None:
                    i += 1
            # one on_node_start per execution: a second start while the first execution has produced neither a completion
            # event nor been superseded is a start without an execution behind it
            for a, b in zip(seq, seq[1:]):
                if a[2] == 'node_start' and b[2] == 'node_start':
                    probs.append('node %s: two on_node_start in a row (one execution)' % nk)
                    break
            has_rec = any(mk[0] == 'rec' for nd in spec['nodes'] for _, mk in nd['params'])
            if not has_rec and sum(1 for e in seq if e[2] == 'node_start') > 1:
                probs.append('node %s: on_node_start x%d, a node of a pipeline without recurrent subgraphs executes at most once'
                             % (nk, sum(1 for e in seq if e[2] == 'node_start')))
        # attempts vs node_complete events and value-after-complete
        # every body start is preceded by node_start of that node (one pass: a livelocked run has thousands of events)
        told = set()
        for e in trace:
            if e[0] == 'emit' and e[1] == m and e[2] == 'node_start' and e[3] is not None:
                told.add(json.dumps(e[3]))
            elif e[0] == 'start':
                i = e[1]
                if json.dumps(['n', i]) not in told:
                    probs.append('node %d body started before on_node_start' % i)
    return probs


def check_values_after_complete(spec, obs, run_idx=0):
    """C14 last clause: a node's value is delivered to a consumer only after its successful on_node_complete."""
    run = obs['runs'][run_idx]
    probs = []
    trace = run['trace']
    if not spec['managers']:
        return probs
    completed = set()
    for e in trace:
        if e[0] == 'emit' and e[1] == 0 and e[2] == 'node_complete' and e[4] is None:
            completed.add(json.dumps(e[3]))
        if e[0] == 'start':
            for _, v in e[3]:
                for i in produced_by(v):
                    if json.dumps(['n', i]) not in completed:
                        probs.append('node %d consumed the value of node %d before its successful on_node_complete' % (e[1], i))
    return probs


def produced_by(v):
    """top-level producer node of a canonical value (['v', i, ...] or ['d', i, ...])"""
    if isinstance(v, list) and v and v[0] in ('v', 'd'):
        return [v[1]]
    return []


def check_saves(spec, obs, ref, run_idx=0):
    """C19: with a store configured, a successful run saves each executed node's final value exactly once."""
    run = obs['runs'][run_idx]
    probs = []
    if spec['store'] == 'none' or run['outcome'][0] != 'value' and not any(e[0] == 'save' for e in run['trace']):
        return probs
    saves = [e for e in run['trace'] if e[0] == 'save']
    for e in saves:
        if contains_bad(e[2]):
            probs.append('saved a Recurrent marker or a failure as the artifact of %s: %s' % (json.dumps(e[1]), json.dumps(e[2])[:100]))
    if run['outcome'][0] == 'error' and run['outcome'][1] == ['ee', 'ArtifactAlreadyExists']:
        probs.append('a write-once store made the run fail: a node was saved twice')
    if run['outcome'][0] == 'value' and obs['verdict'] == 'finished':
        per = {}
        for e in saves:
            per.setdefault(json.dumps(e[1]), []).append(e[2])
        for nk, vals in per.items():
            if len(vals) != 1:
                probs.append('node %s saved %d times' % (nk, len(vals)))
        # every executed node whose value reached a consumer or the result is saved with that value
        delivered = {}
        for e in run['trace']:
            if e[0] == 'start':
                for _, v in e[3]:
                    for i in produced_by(v):
                        delivered[i] = v
        for i in produced_by(run['outcome'][1]):
            delivered[i] = run['outcome'][1]
        # every node that ran to a value in this successful run (also a None value) has its artifact
        executed_ok = {e[1] for e in run['trace'] if e[0] == 'start'} & {x['node'] for x in ref['log'] if x['result'][0] == 'ok'}
        for i in sorted(executed_ok):
            if not per.get(json.dumps(['n', i])) and i not in delivered and not ref['flags'].get('has_rec') and not ref['flags'].get('has_oneof'):
                probs.append('node %d was executed by a successful run but never saved' % i)
        for i, v in delivered.items():
            vals = per.get(json.dumps(['n', i]), [])
            if not vals:
                probs.append('value of node %d was consumed but never saved' % i)
            elif vals[-1] != v:
                probs.append('node %d: saved value differs from the value its consumers received' % i)
    return probs
