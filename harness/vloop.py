"""Deterministic virtual asyncio event loop.

Drives the *unmodified* engine from /repo: a FIFO deque of handles, virtual time, timers
kept aside as gates that only the schedule fires, executor submissions turned into gates.
It never blocks, so "quiescent" (ready queue empty) and "deadlock" (quiescent, no gate
outstanding, main task pending) are exact verdicts.
"""
import asyncio
import collections
from asyncio import events, futures, tasks


class VLoop(asyncio.AbstractEventLoop):
    def __init__(self):
        self.ready = collections.deque()
        self.timers = []          # list of (seq, when, TimerHandle, owner_task_name)
        self.now = 0.0
        self.seq = 0
        self.exc = []
        self._closed = False
        self.steps = 0
        self.on_timer = None      # callback(timer_record) when a timer is armed
        self.on_executor = None   # callback(executor, fn) -> loop future

    # --- minimal loop API used by asyncio.Task/Future/Condition/Event/sleep -------------
    def get_debug(self):
        return False

    def time(self):
        return self.now

    def is_running(self):
        return True

    def is_closed(self):
        return self._closed

    def call_soon(self, cb, *args, context=None):
        h = events.Handle(cb, args, self, context)
        self.ready.append(h)
        return h

    call_soon_threadsafe = call_soon

    def call_later(self, delay, cb, *args, context=None):
        return self.call_at(self.now + delay, cb, *args, context=context)

    def call_at(self, when, cb, *args, context=None):
        h = events.TimerHandle(when, cb, args, self, context)
        self.seq += 1
        cur = tasks.current_task(self)
        rec = dict(seq=self.seq, when=when, handle=h, owner=cur.get_name() if cur else None, fired=False)
        self.timers.append(rec)
        if self.on_timer:
            self.on_timer(rec)
        return h

    def _timer_handle_cancelled(self, h):
        pass

    def create_future(self):
        return futures.Future(loop=self)

    def create_task(self, coro, *, name=None, context=None):
        return tasks.Task(coro, loop=self, name=name, context=context)

    def call_exception_handler(self, ctx):
        self.exc.append(ctx)

    def run_in_executor(self, executor, fn, *args):
        if self.on_executor is None:
            raise RuntimeError('no executor hook')
        return self.on_executor(executor, fn, *args)

    # --- driving -------------------------------------------------------------------------
    def step(self):
        h = self.ready.popleft()
        self.steps += 1
        if not h._cancelled:
            h._run()

    def run_ready(self, limit=200000):
        n = 0
        while self.ready:
            self.step()
            n += 1
            if n > limit:
                raise RuntimeError('step limit')
        return n

    def live_timers(self):
        # a timer whose awaiting future is already done (asyncio.sleep of a task that was cancelled but has not been resumed yet:
        # sleep() cancels the handle only in its `finally`) can fire, but the firing is a no-op (_set_result_unless_cancelled): it is
        # not an outstanding completion any more -- the model drops the wait at the cancellation, too
        return [r for r in self.timers if not r['fired'] and not r['handle']._cancelled and not _awaiter_done(r['handle'])]

    def fire_timer(self, rec):
        rec['fired'] = True
        self.now = max(self.now, rec['when'])
        if not rec['handle']._cancelled:
            self.ready.append(rec['handle'])


class running:
    """Context manager installing a VLoop as the running loop."""

    def __init__(self, loop):
        self.loop = loop

    def __enter__(self):
        events._set_running_loop(self.loop)
        return self.loop

    def __exit__(self, *a):
        events._set_running_loop(None)
        return False


def _awaiter_done(handle):
    args = getattr(handle, '_args', None) or ()
    return bool(args) and isinstance(args[0], futures.Future) and args[0].done()
