"""Structured random generators for ProgSpecs and schedules. Every random choice derives from the
random.Random instance passed in (seeded from VERIF_SEED by the caller)."""
import progspec as ps


def N(params=None, **kw):
    return ps.node_defaults(dict(params=params or [], **kw))


PROFILES = {
    # weights: p_sw, p_oneof, p_rec (per program), p_fail, p_none, p_unknown, excl (one-of candidates exclusive)
    'plain': dict(p_sw=0.0, p_oneof=0.0, p_rec=0.0, p_fail=0.15, p_none=0.05),
    'plain_ok': dict(p_sw=0.0, p_oneof=0.0, p_rec=0.0, p_fail=0.0, p_none=0.05),
    'switch': dict(p_sw=0.35, p_oneof=0.0, p_rec=0.0, p_fail=0.12, p_none=0.05, p_unknown=0.15),
    'oneof': dict(p_sw=0.0, p_oneof=0.35, p_rec=0.0, p_fail=0.3, p_none=0.08, excl=1),
    'oneof_shared': dict(p_sw=0.0, p_oneof=0.35, p_rec=0.0, p_fail=0.3, p_none=0.08, excl=0),
    'mixed': dict(p_sw=0.2, p_oneof=0.25, p_rec=0.0, p_fail=0.2, p_none=0.06, p_unknown=0.08, excl=1, no_sw_in_cand=1),
    'mixed_all': dict(p_sw=0.2, p_oneof=0.25, p_rec=0.0, p_fail=0.2, p_none=0.06, p_unknown=0.08, excl=0),
    'rec': dict(p_sw=0.0, p_oneof=0.0, p_rec=1.0, p_fail=0.08, p_none=0.0, closed=1),
    'rec_open': dict(p_sw=0.0, p_oneof=0.0, p_rec=1.0, p_fail=0.08, p_none=0.0, closed=0),
    'rec_mixed': dict(p_sw=0.15, p_oneof=0.15, p_rec=1.0, p_fail=0.1, p_none=0.0, excl=1, closed=0),
}


def gen_program(rng, n=None, p_sw=0.2, p_oneof=0.25, p_rec=0.0, p_fail=0.15, p_none=0.05, p_unknown=0.0, excl=0,
                closed=0, no_sw_in_cand=0, retry=0.0, modes=None, **_):
    """Grow a program of n nodes, node 0 the input node, node n-1 the output node; node i may only
    reference nodes < i, so indices are a topological numbering of the declared dependencies."""
    n = n or rng.randint(3, 9)
    for _attempt in range(200):
        nodes = [N()]
        candset = set()
        refd = set()
        for i in range(1, n):
            params = []
            for k in range(rng.choice([1, 1, 2, 2, 3])):
                r = rng.random()
                pn = 'p%d' % k
                used = {m for _, mk in params for m in ps.mark_nodes(mk)}
                cands = [m for m in range(i) if m not in used and not (excl and m in candset)]
                if not cands:
                    break
                nz = [m for m in cands if m != 0]
                if r < p_sw and i >= 3 and nz:
                    d = rng.choice(nz)
                    pool = [m for m in range(1, i) if m != d and m not in used and not (excl and m in candset)]
                    cs = rng.sample(pool, min(len(pool), rng.choice([1, 2, 3])))
                    if cs:
                        params.append([pn, ['sw', d, [[('' if j == 0 and rng.random() < 0.15 else 'L%d' % j), m] for j, m in enumerate(cs)]]])
                        continue
                elif r < p_sw + p_oneof:
                    nz2 = [m for m in nz if not (excl and m in refd)]
                    cs = rng.sample(nz2, min(len(nz2), rng.choice([2, 2, 3])))
                    if len(cs) >= 2:
                        params.append([pn, ['oneof', cs]])
                        candset.update(cs)
                        continue
                params.append([pn, ['in', rng.choice(cands)]])
            for _, mk in params:
                refd.update(ps.mark_nodes(mk))
            r = rng.random()
            nd = N(params)
            if r < p_fail:
                nd['fails'] = [rng.choice(['EA', 'EA', 'EB', 'EC'])]
            elif r < p_fail + p_none:
                nd['beh'] = rng.choice(['none', ['int', 0], ['str', '']])
            nodes.append(nd)
        out = n - 1
        live = ps.closure(nodes, out)
        # deciders return a label
        for nd in nodes:
            for _, mk in nd['params']:
                if mk[0] == 'sw':
                    labels = [l for l, _ in mk[2]]
                    dn = nodes[mk[1]]
                    if not dn['fails'] or rng.random() < 0.7:
                        dn['beh'] = ['str', 'UNKNOWN' if rng.random() < p_unknown else rng.choice(labels)]
        if no_sw_in_cand and _sw_in_candidate(nodes):
            continue
        if rng.random() < p_rec:
            if not _add_recurrent(rng, nodes, closed):
                continue
            if retry and rng.random() < 0.5:
                # exercise retry/default on the nodes of the recurrent subgraph itself (start node included)
                for nd2 in nodes:
                    for _, mk in nd2['params']:
                        if mk[0] == 'rec':
                            P = path_nodes(nodes, mk[1], mk[2])
                            for x in P:
                                if x != mk[2] and rng.random() < 0.5 and x != 0:
                                    add_retry(rng, nodes[x])
                                    if rng.random() < 0.6:
                                        nodes[x]['use_default'] = True
                            # ... and on readers of inner nodes that sit outside the subgraph
                            for x in range(1, len(nodes)):
                                if x not in P and any(m in P and m != mk[2] for _, m2 in nodes[x]['params'] for m in ps.mark_nodes(m2)):
                                    if rng.random() < 0.7:
                                        nodes[x]['attempts'] = rng.choice([2, 3])
                                        nodes[x]['delay'] = rng.choice([0, 0.3])
                                        nodes[x]['exceptions'] = None
                                        nodes[x]['fails'] = ['EA', None]
        # un-marked nodes: declare no dependency at all (the builder links them to the input node implicitly)
        for nd in nodes[1:]:
            if nd['params'] and all(mk == ['in', 0] for _, mk in nd['params']) and rng.random() < 0.12:
                nd['params'] = []
        if retry:
            for nd in nodes[1:]:
                if rng.random() < retry:
                    add_retry(rng, nd)
        if modes:
            for nd in nodes:
                nd['mode'] = rng.choice(modes)
        if 0 not in live and n > 1:
            continue
        return dict(nodes=nodes)
    raise RuntimeError('generator could not satisfy constraints')


def _sw_in_candidate(nodes):
    for nd in nodes:
        for _, mk in nd['params']:
            if mk[0] == 'oneof':
                for c in mk[1]:
                    for j in ps.closure(nodes, c):
                        if any(m2[0] == 'sw' for _, m2 in nodes[j]['params']):
                            return True
    return False


def dependents(nodes, s):
    """Nodes reachable from s along declared dependencies (s included)."""
    desc = {s}
    for i in range(s + 1, len(nodes)):
        if any(m in desc for _, mk in nodes[i]['params'] for m in ps.mark_nodes(mk)):
            desc.add(i)
    return desc


def path_nodes(nodes, s, d):
    return dependents(nodes, s) & ps.closure(nodes, d)


def _add_recurrent(rng, nodes, closed):
    n = len(nodes)
    out = n - 1
    live = ps.closure(nodes, out)
    cand_d = [d for d in range(1, n - 1) if d in live and nodes[d]['beh'] == 'ok' and not nodes[d]['fails']]
    rng.shuffle(cand_d)
    for d in cand_d:
        anc = sorted(ps.closure(nodes, d) - {d})
        rng.shuffle(anc)
        for s in anc:
            P = path_nodes(nodes, s, d)
            if closed:
                # no node outside P reads an inner node other than d (and the start is not the input node
                # when any other node reads the input)
                bad = any(m in P and m != d for i in range(n) if i not in P
                          for _, mk in nodes[i]['params'] for m in ps.mark_nodes(mk))
                if bad:
                    continue
                if any(nodes[i]['params'] and nodes[i]['params'][j][1][0] != 'in' for i in P for j in range(len(nodes[i]['params']))):
                    continue
            cons = [(i, j) for i in range(d + 1, n) if i in live
                    for j, (pn, mk) in enumerate(nodes[i]['params']) if mk == ['in', d]]
            if not cons:
                continue
            maxit = rng.choice([1, 2, 3])
            k = rng.randint(0, maxit + 1)
            nodes[d]['beh'] = ['recur', k]
            nodes[d]['use_default'] = rng.random() < 0.5
            first = True
            for (i, j) in cons:
                if first or rng.random() < 0.5:
                    nodes[i]['params'][j][1] = ['rec', s, d, maxit]
                    first = False
            return True
    return False


def add_retry(rng, nd):
    nd['attempts'] = rng.choice([None, 0, 1, 2, 3, 5])
    nd['delay'] = rng.choice([None, 0, 0, 0.3])
    nd['exceptions'] = rng.choice([None, None, ['EA'], ['EB'], ['EC'], ['EA', 'EC'], [], ['Exception']])
    nd['use_default'] = rng.random() < 0.4
    a = nd['attempts'] or 1
    ln = rng.randint(1, a + 1)
    nd['fails'] = [rng.choice(['EA', 'EB', 'EC', None, 'EA', 'BX' if rng.random() < 0.15 else 'EA']) for _ in range(ln)]
    if rng.random() < 0.5:
        nd['fails'][-1] = None
    return nd


def gen_schedule(rng, kind='batch', length=40, p_multi=0.25, p_cancel=0.0, n_runs=1):
    """kind 'batch': run to quiescence, complete one (sometimes several) pending gates, repeat.
    kind 'step': arbitrary interleaving of single loop steps and gate completions."""
    s = []
    if kind == 'batch':
        for _ in range(length):
            s.append(['q'])
            s.append(['g', rng.randint(0, 5)])
            while rng.random() < p_multi:
                s.append(['g', rng.randint(0, 5)])
            if p_cancel and rng.random() < p_cancel:
                s.append(['c', rng.randint(0, max(0, n_runs - 1))])
    else:
        for _ in range(length * 4):
            r = rng.random()
            if r < 0.6:
                s.append(['s'])
            elif r < 0.95:
                s.append(['g', rng.randint(0, 5)])
            else:
                s.append(['q'])
            if p_cancel and rng.random() < p_cancel:
                s.append(['c', rng.randint(0, max(0, n_runs - 1))])
    return s


def features(spec):
    nodes = spec['nodes']
    out = len(nodes) - 1
    live = ps.closure(nodes, out)
    f = set()
    for i in live:
        for _, mk in nodes[i]['params']:
            f.add(mk[0])
        if nodes[i]['fails']:
            f.add('fail')
        if nodes[i]['beh'] != 'ok':
            f.add('beh')
    return f


# ---- hand-made shapes for interactions the random grower reaches too rarely ---------------------------------
def template_program(rng, name=None):
    I = lambda m: ['in', m]  # noqa: E731
    name = name or rng.choice(sorted(TEMPLATES))
    return dict(nodes=TEMPLATES[name](rng, I))


def _t_retry_outside_reader(rng, I):
    mx = rng.choice([1, 2, 3])
    k = rng.randint(1, mx)
    return [N(), N([['a', I(0)]]), N([['a', I(1)]]), N([['a', I(2)]], beh=['recur', k]),
            N([['m', I(2)]], attempts=rng.choice([2, 3]), delay=rng.choice([0, 0.3]), fails=['EA', None],
              use_default=rng.random() < 0.3),
            N([['r', ['rec', 1, 3, mx]], ['x', I(4)]])]


def _t_default_on_start(rng, I):
    mx = rng.choice([1, 2])
    return [N(), N([['a', I(0)]], attempts=rng.choice([1, 2]), fails=[None, 'EA'] if rng.random() < 0.5 else ['EA'],
                   use_default=True, delay=0),
            N([['a', I(1)]], beh=['recur', rng.randint(1, mx)]),
            N([['r', ['rec', 1, 2, mx]]])]


def _t_shared_case_in_flight(rng, I):
    # the selected case is also a plain input of the consumer (or of the output) and may still run when the switch resolves
    return [N(), N([['a', I(0)]], beh=['str', rng.choice(['L0', 'L1', 'UNKNOWN', 'L0'])]), N([['a', I(0)]]), N([['a', I(0)]]),
            N([['v', ['sw', 1, [['L0', 2], ['L1', 3]]]], ['w', I(2)]]), N([['a', I(4)], ['b', I(3)]])]


def _t_shared_between_candidates(rng, I):
    f = rng.choice([['EA'], [], ['EC']])
    return [N(), N([['a', I(0)]]), N([['a', I(0)]], fails=f), N([['a', I(2)]]), N([['s', I(1)], ['x', I(3)]]),
            N([['s', I(1)]], fails=rng.choice([[], [], ['EB']])), N([['v', ['oneof', [4, 5]]]]), N([['a', I(6)], ['b', I(1)]])]


def _t_nested_oneof(rng, I):
    f = lambda: rng.choice([['EA'], [], []])  # noqa: E731
    return [N(), N([['a', I(0)]], fails=f()), N([['a', I(0)]], fails=f()), N([['v', ['oneof', [1, 2]]], ['z', I(0)]]),
            N([['a', I(3)]], fails=f()), N([['a', I(3)]], fails=f()), N([['v', ['oneof', [4, 5]]], ['y', I(3)]]),
            N([['a', I(6)]])]


def _t_two_scopes_one_node(rng, I):
    # node 2 is reached from the main DAG, from a switch branch and from a one-of candidate
    return [N(), N([['a', I(0)]], beh=['str', 'L0']), N([['a', I(0)]], fails=rng.choice([[], [], ['EA']])),
            N([['a', I(2)]]), N([['a', I(2)]], fails=rng.choice([[], ['EB']])),
            N([['v', ['sw', 1, [['L0', 2], ['L1', 3]]]], ['w', ['oneof', [4, 3]]], ['u', I(2)]])]


def _t_rec_two_consumers(rng, I):
    mx = rng.choice([1, 2, 3])
    return [N(), N([['a', I(0)]]), N([['a', I(1)]]), N([['a', I(2)]], beh=['recur', rng.randint(0, mx + 1)],
                                                       use_default=rng.random() < 0.5),
            N([['r', ['rec', 1, 3, mx]]]), N([['r', I(3)], ['s', I(0)]]), N([['a', I(4)], ['b', I(5)]])]


def _t_candidate_two_deps(rng, I):
    # a candidate with two parallel dependencies, one of which may fail while the other is still in flight; the fallback
    # (and then the output) can finish before the slow dependency of the abandoned candidate does
    f = rng.choice([['EA'], ['EA'], [], ['EC']])
    nodes = [N(), N([['a', I(0)]]), N([['a', I(0)]], fails=f), N([['a', I(1)], ['b', I(2)]]),
             N([['a', I(0)]], fails=rng.choice([[], [], [], ['EB']])), N([['v', ['oneof', [3, 4]]]])]
    if rng.random() < 0.4:
        nodes.append(N([['a', I(5)]]))
    return nodes


def _t_failure_beside_running(rng, I):
    # a node fails while siblings are still in flight (plain DAG): the run is decided with work outstanding
    k = rng.choice([2, 3])
    nodes = [N()] + [N([['a', I(0)]], fails=(['EA'] if j == 0 else rng.choice([[], [], ['EC']]))) for j in range(k)]
    nodes.append(N([['p%d' % j, I(1 + j)] for j in range(k)]))
    return nodes


def _t_rec_switch_label_changes(rng, I):
    # a switch inside a recurrent subgraph (1 -> 5) whose decider (2) answers differently from one iteration to the next
    labels = rng.choice([['L0', 'L1'], ['L0', 'L1', 'L0'], ['L1', 'L0'], ['L0', 'L0', 'L1'], ['L0', 'NOPE']])
    mx = rng.choice([1, 2, 3])
    return [N(), N([['a', I(0)]]), N([['a', I(1)]], beh=['strep', labels]), N([['a', I(1)]]), N([['a', I(1)]]),
            N([['v', ['sw', 2, [['L0', 3], ['L1', 4]]]]], beh=['recur', rng.randint(1, mx)], use_default=rng.random() < 0.3),
            N([['r', ['rec', 1, 5, mx]]])]


def _t_case_shared_with_candidate(rng, I):
    # the selected switch case (2) is also an ancestor of the first one-of candidate (4) and may fail; the one-of scope usually
    # reaches it first (the decider 1 is a sibling), so its failure is first kept as a value inside the one-of scope
    f = rng.choice([['EA'], ['EA'], ['EC'], []])
    lab = rng.choice(['k', 'k', 'o'])
    return [N(), N([['a', I(0)]], beh=['str', lab]), N([['a', I(0)]], fails=f), N([['a', I(0)]]), N([['a', I(2)]]),
            N([['a', I(0)]], fails=rng.choice([[], [], ['EB']])), N([['v', ['sw', 1, [['k', 2], ['o', 3]]]], ['w', ['oneof', [4, 5]]]])]


def _t_nested_rec(rng, I):
    # an inner recurrent subgraph (2 -> 3) inside an outer one (1 -> 5); with 'receven' the inner one iterates again in every
    # outer pass, with 'recur' only in the first
    mx1, mx2 = rng.choice([1, 2]), rng.choice([1, 2, 3])
    inner = rng.choice([['receven', 3], ['receven', 5], ['recur', rng.randint(0, 2)]])
    return [N(), N([['a', I(0)]]), N([['a', I(1)]]), N([['a', I(2)]], beh=inner, use_default=rng.random() < 0.3),
            N([['r', ['rec', 2, 3, mx1]]]), N([['a', I(4)]], beh=['recur', rng.randint(0, 3)], use_default=rng.random() < 0.3),
            N([['r', ['rec', 1, 5, mx2]]])]


def _t_unknown_label_in_candidate(rng, I):
    # a switch inside the sub-pipeline of the first one-of candidate whose decider may answer with a label that has no case: the
    # engine keeps SwitchCaseDoesNotHaveBranchError as the switch's result inside the one-of scope, the consumer of the switch (and an
    # intermediate node between it and the candidate) must still become ready so that the candidate is abandoned for the fallback
    lab = rng.choice(['L0', 'UNKNOWN', 'UNKNOWN'])
    nodes = [N(), N([['a', I(0)]], beh=['str', lab]), N([['a', I(0)]]), N([['v', ['sw', 1, [['L0', 2]]]]])]
    cand = 3
    for _ in range(rng.choice([0, 1, 1, 2])):
        nodes.append(N([['a', I(cand)]]))
        cand = len(nodes) - 1
    nodes.append(N([['a', I(0)]], fails=rng.choice([[], [], ['EB']])))
    nodes.append(N([['w', ['oneof', [cand, len(nodes) - 1]]]]))
    return nodes


TEMPLATES = {'unknown_label_in_candidate': _t_unknown_label_in_candidate, 'retry_outside_reader': _t_retry_outside_reader, 'default_on_start': _t_default_on_start,
             'shared_case_in_flight': _t_shared_case_in_flight, 'shared_between_candidates': _t_shared_between_candidates,
             'nested_oneof': _t_nested_oneof, 'two_scopes_one_node': _t_two_scopes_one_node,
             'rec_two_consumers': _t_rec_two_consumers, 'candidate_two_deps': _t_candidate_two_deps,
             'failure_beside_running': _t_failure_beside_running, 'nested_rec': _t_nested_rec, 'rec_switch_label_changes': _t_rec_switch_label_changes,
             'case_shared_with_candidate': _t_case_shared_with_candidate}
