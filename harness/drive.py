"""Shared by exhaustive.py and modelcheck.py: explore one program with the extracted explorer using the library orders the REAL
run produces (recorded from runs of the very chart that is then driven: node ids, hence set iteration orders, are identical), and
drive the real engine along every transition of the explored graph."""
import json
import random

import runimpl as R
import runmodel as M


def oracle_fields(spec, orders, descs, pools=(True, True)):
    it = M.Interner()
    fields, amb = M.prog_fields(json.loads(json.dumps(spec)), it, orders, descs, pools)
    return fields, amb


def record_oracles(spec, built, tag, seeds=(1, 2)):
    """library orders of this chart from a few ordinary runs"""
    orders, descs = [], {}
    for sd in seeds:
        obs = R.run_schedule(json.loads(json.dumps(spec)), R.RandomBatch(random.Random(sd)), tag=tag, built=built)
        orders += obs['orders']
        descs.update(obs['descendants'])
    return orders, descs


def drive_all(model, spec, tag, st, max_paths=None, sample=None, pools=(True, True), collect=None):
    """returns (n_transitions_checked, disagreements[list of dict]); re-explores when a run reveals an order not recorded yet"""
    built = R.build(json.loads(json.dumps(spec)), tag)
    orders, descs = record_oracles(spec, built, tag)
    broken = []
    for attempt in range(3):
        fields, amb = oracle_fields(spec, orders, descs, pools)
        res = model.ask(M.sx(['paths'] + fields + [['wc', 1]]))
        paths = res.get('paths')
        if paths is None:
            return 0, [dict(diffs=['explorer out of fuel'], spec=spec, actions=[])], 0
        total = len(paths)
        if collect is not None:
            collect['paths'] = paths
        if max_paths is not None and total > max_paths:
            return 0, [], total
        if sample is not None and total > sample[0]:
            paths = [p for j, p in enumerate(paths) if (j + sample[1]) % (total // sample[0] + 1) == 0]
        broken = []
        learned = False
        n = 0
        for p in paths:
            obs = R.run_schedule(json.loads(json.dumps(spec)), R.Exact(p), tag=tag, built=built, drain=False)
            n += 1
            new_desc = {k: v for k, v in obs['descendants'].items() if k not in descs}
            if collect is not None:       # every launch / successor order the real engine used on any path
                collect.setdefault('orders', []).extend(obs['orders'])
                collect.setdefault('descs', {}).update(obs['descendants'])
            resm = model.run(spec, obs['actions'], orders + obs['orders'], dict(descs, **obs['descendants']), pools=pools, obs=obs)
            if obs['missing'] and resm.get('pick_matched') in (None, 0):
                d = ['the implementation had no such outstanding completion (%d of the actions)' % obs['missing']]
            elif resm.get('ambiguous_orders'):
                continue
            else:
                # (when the implementation reported another of several failed tasks than the explorer's default, the path was explored
                # under the other choice: the model re-run with the implementation's choice must then miss the same completions)
                d = [x for x in M.compare(obs, resm)
                     if not (obs['missing'] and obs['missing'] == resm.get('missing') and x.startswith('model: '))]
            if d:
                if new_desc and attempt < 2:
                    # the run used a successor order the exploration did not know: learn it and explore again
                    descs.update(new_desc)
                    orders += obs['orders']
                    learned = True
                    break
                broken.append(dict(diffs=d[:3], spec=spec, actions=p, tag=tag))
                if len(broken) >= 3:
                    break
            elif new_desc:
                descs.update(new_desc)
        if not learned:
            st['transitions'] += n
            return n, broken, total
    st['transitions'] += n
    return n, broken, total
