"""Maintain harness/corpus/defects.jsonl: replays of defects found on the pinned tree.
usage: corpus_tool.py add <id> <props,comma> <case.json> <what fails>   |   corpus_tool.py run"""
import json, os, sys
HERE = os.path.dirname(os.path.abspath(__file__))
PATH = os.path.join(HERE, 'corpus', 'defects.jsonl')


def load():
    if not os.path.exists(PATH):
        return []
    return [json.loads(l) for l in open(PATH) if l.strip()]


def add(did, props, case, what):
    rows = [r for r in load() if r['id'] != did]
    rows.append(dict(id=did, properties=props.split(','), what=what, spec=case['spec'], sched=case.get('sched', []),
                     opts=case.get('opts', {}), hashseed=case.get('hashseed', 0)))
    rows.sort(key=lambda r: r['id'])
    with open(PATH, 'w') as f:
        for r in rows:
            f.write(json.dumps(r, sort_keys=True) + '\n')


if __name__ == '__main__':
    if sys.argv[1] == 'add':
        add(sys.argv[2], sys.argv[3], json.load(open(sys.argv[4])), sys.argv[5])
    else:
        sys.path.insert(0, HERE)
        import runimpl as R
        for r in load():
            if str(r.get('hashseed', 0)) != os.environ.get('PYTHONHASHSEED'):
                continue
            o = R.run_schedule(json.loads(json.dumps(r['spec'])), r['sched'], tag='_' + r['id'], **r['opts'])
            print(r['id'], o['verdict'], [x['outcome'] for x in o['runs']], 'snap_equal', o['snapshots_equal'],
                  'inputs_kept', all(x['input_before'] == x['input_after'] for x in o['runs']))
