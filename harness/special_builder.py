"""C15 / C16: the real build_dag on classes materialised from random declaration sets, compared with
  K2  the extracted Coq builder model (graph, attributes, node_map, traversal order) / validation model (error class);
  K1  C15: the declared dependency relation computed independently from the declarations (set-based);
      C16: a valid program builds; one defect at a reachable node raises exactly that defect's error."""
import collections
import json
import os
import random
import sys
import time

HERE = os.path.dirname(os.path.abspath(__file__))
sys.path.insert(0, HERE)
REPO = os.environ.get('VERIF_REPO', '/repo')
sys.path.insert(0, REPO)
import logging  # noqa: E402
logging.disable(logging.CRITICAL)
import gen as G  # noqa: E402
import progspec as ps  # noqa: E402
import runmodel as M  # noqa: E402

DEFECTS = ['not_class', 'no_base', 'no_process', 'no_annotations', 'unannotated_param', 'generic', 'no_rec_protocol',
           'no_additional_data']
ERR = {'not_class': 'IncorrectTypeClass', 'no_base': 'IncorrectBaseClass', 'no_process': 'RunMethodExpectedError',
       'no_annotations': 'UndefinedAnnotation', 'unannotated_param': 'UndefinedParamAnnotation',
       'generic': 'NonRedefinedGenericTypeError', 'no_rec_protocol': 'IncorrectRecurrentMixinClass',
       'no_additional_data': 'IncorrectParamsRecurrentNode'}


def materialize(spec, defects, tag=''):
    """defects: {node index: set of defect names}"""
    import typing as t
    from ml_pipeline_engine.dag_builders.annotation.marks import Input, InputGeneric, InputOneOf, SwitchCase, RecurrentSubGraph
    from ml_pipeline_engine.node import ProcessorBase, RecurrentProcessor
    nodes = spec['nodes']
    classes = []
    rec_starts = {mk[1] for nd in nodes for _, mk in nd['params'] if mk[0] == 'rec'}
    for i, nd in enumerate(nodes):
        df = defects.get(i, set())
        ann = {}
        for j, (pn, m) in enumerate(nd['params']):
            if m[0] == 'in':
                ann[pn] = Input(classes[m[1]])
            elif m[0] == 'sw':
                ann[pn] = SwitchCase(switch=classes[m[1]], cases=[(l, classes[c]) for l, c in m[2]],
                                     name=None if spec.get('unnamed_switch') else 's%d_%d%s' % (i, j, tag))
            elif m[0] == 'oneof':
                ann[pn] = InputOneOf([classes[c] for c in m[1]])
            else:
                ann[pn] = RecurrentSubGraph(start_node=classes[m[1]], dest_node=classes[m[2]], max_iterations=m[3])
        if i in rec_starts and 'no_additional_data' not in df:
            ann['additional_data'] = t.Any
        if 'no_annotations' in df:
            def process(self, a=None):
                return None
        elif 'unannotated_param' in df:
            async def process(self, zz=None, **kwargs):
                return None
            process.__annotations__ = dict(ann)
        else:
            async def process(self, **kwargs):
                return None
            process.__annotations__ = dict(ann)
        if 'generic' in df:
            process.__annotations__['gg'] = InputGeneric(classes[0] if classes else ProcessorBase)
        base = RecurrentProcessor
        if 'no_rec_protocol' in df:
            base = ProcessorBase
        attrs = {'process': process, 'name': 'n%d%s' % (i, tag), 'verbose_name': 'Node %d' % i}
        if 'no_process' in df:
            attrs['process'] = None
        if 'no_base' in df:
            cls = type('N%d%s' % (i, tag), (object,), dict(attrs, tags=(), use_default=False, attempts=None, delay=None, exceptions=None))
        else:
            cls = type('N%d%s' % (i, tag), (base,), attrs)
        if 'not_class' in df:
            cls = cls() if 'no_process' not in df else cls()
        classes.append(cls)
    return classes


def reachable(spec):
    nodes = spec['nodes']
    out = len(nodes) - 1
    seen = set()
    stack = [out]
    while stack:
        i = stack.pop()
        if i in seen:
            continue
        seen.add(i)
        ps_ = nodes[i]['params']
        if not ps_ and i != 0:
            stack.append(0)
        for _, mk in ps_:
            stack.extend(ps.mark_nodes(mk))
    return seen


def declared(spec):
    """the declared dependency relation restricted to what the output needs (order-free)"""
    nodes = spec['nodes']
    V = reachable(spec)
    N = {}
    E = {}
    deliveries = []

    def node(k, **a):
        N.setdefault(json.dumps(k), {}).update(a)

    def edge(u, v, **a):
        node(u)
        node(v)
        E.setdefault(json.dumps([u, v]), {}).update(a)
    if len(nodes) == 1:
        node(['n', 0])
    for i in sorted(V):
        pr = nodes[i]['params']
        if not pr and i != 0:
            edge(['n', 0], ['n', i])
        for j, (pn, mk) in enumerate(pr):
            if mk[0] == 'in':
                edge(['n', mk[1]], ['n', i], kwarg_name=pn)
                deliveries.append([['n', mk[1]], ['n', i], pn])
            elif mk[0] == 'rec':
                node(['n', mk[2]], start_node=['n', mk[1]], max_iterations=mk[3])
                edge(['n', mk[2]], ['n', i], kwarg_name=pn)
                deliveries.append([['n', mk[2]], ['n', i], pn])
            elif mk[0] == 'oneof':
                h = ['oo', i, j]
                node(h, is_oneof=True, oneof_nodes=[['n', c] for c in mk[1]])
                edge(['n', 0], h)
                for c in mk[1]:
                    node(['n', c], is_oneof_child=True)
                    edge(['n', c], h)
                edge(h, ['n', i], kwarg_name=pn)
            else:
                s = ['sw', i, j]
                node(s, is_switch=True)
                edge(['n', mk[1]], s, is_switch=True)
                for l, c in mk[2]:
                    edge(['n', c], s, case_branch=l)
                edge(s, ['n', i], kwarg_name=pn)
    return dict(nodes=N, edges=E, node_map=sorted(V | {0}), deliveries=deliveries)


def real_graph(dag, to_key, spec=None):
    to_key = dict(to_key)
    if spec is not None and spec.get('unnamed_switch'):
        # unnamed switches get a generated id: recognise each by the parameter it delivers to
        pidx = {(i, pn): j for i, nd in enumerate(spec['nodes']) for j, (pn, mk) in enumerate(nd['params'])}
        for n, d in dag.graph.nodes(data=True):
            if n not in to_key and any(getattr(k, 'value', k) == 'is_switch' for k in d):
                outs = [(v, dd) for _, v, dd in dag.graph.out_edges(n, data=True)]
                if len(outs) == 1 and outs[0][0] in to_key:
                    i = to_key[outs[0][0]][1]
                    pn = {getattr(k, 'value', k): x for k, x in outs[0][1].items()}.get('kwarg_name')
                    if (i, pn) in pidx:
                        to_key[n] = ['sw', i, pidx[(i, pn)]]

    def key(nid):
        return to_key.get(nid, ['?', str(nid)])
    N, E = {}, {}
    for n, d in dag.graph.nodes(data=True):
        a = {}
        for k, v in d.items():
            k = getattr(k, 'value', k)
            if k == 'oneof_nodes':
                v = [key(x) for x in v]
            elif k == 'start_node':
                v = key(v)
            a[str(k)] = v
        N[json.dumps(key(n))] = a
    for u, v, d in dag.graph.edges(data=True):
        E[json.dumps([key(u), key(v)])] = {str(getattr(k, 'value', k)): x for k, x in d.items()}
    nm = sorted(to_key[k][1] for k in dag.node_map if k in to_key and to_key[k][0] == 'n')
    odd = sorted(str(k) for k in dag.node_map if k not in to_key)
    return dict(nodes=N, edges=E, node_map=nm, odd_map=odd, input=key(dag.input_node), output=key(dag.output_node),
                thread=dag.is_thread_pool_needed, process=dag.is_process_pool_needed)


def model_graph(res):
    names = res['names']
    N, E = {}, {}
    for k, a in res['nodes']:
        N[json.dumps(k)] = dict(a)
    for u, v, a in res['edges']:
        a = dict(a)
        if 'kwarg_name' in a:
            a['kwarg_name'] = names[a['kwarg_name']]
        if 'case_branch' in a:
            a['case_branch'] = names[a['case_branch']]
        E[json.dumps([u, v])] = a
    return dict(nodes=N, edges=E, node_map=sorted(res['node_map']))


def diff_graph(a, b, la, lb):
    out = []
    for part in ('nodes', 'edges'):
        for k in sorted(set(a[part]) | set(b[part])):
            if a[part].get(k) != b[part].get(k):
                out.append('%s %s: %s=%s %s=%s' % (part[:-1], k, la, json.dumps(a[part].get(k)), lb, json.dumps(b[part].get(k))))
    if a['node_map'] != b['node_map']:
        out.append('node_map: %s=%s %s=%s' % (la, a['node_map'], lb, b['node_map']))
    return out


def gen_decl(rng):
    prof = rng.choice(['plain', 'switch', 'oneof', 'mixed', 'mixed_all', 'rec', 'rec_open', 'rec_mixed', 'oneof_shared'])
    spec = G.gen_program(rng, **G.PROFILES[prof])
    nodes = spec['nodes']
    if rng.random() < 0.06 and len(nodes) > 2:
        # D13 family: bind two parameters of one node to the same source
        i = rng.randrange(1, len(nodes))
        srcs = [m[1] for _, m in nodes[i]['params'] if m[0] == 'in']
        if srcs:
            nodes[i]['params'].append(['pdup', ['in', rng.choice(srcs)]])
    # extra recurrent marks (only built, never run here): several destinations, often sharing one start node
    for _ in range(rng.choice([0, 0, 1, 2])):
        cands = [(i, j) for i in range(2, len(nodes)) for j, (pn, mk) in enumerate(nodes[i]['params']) if mk[0] == 'in' and mk[1] != 0]
        if not cands:
            break
        i, j = rng.choice(cands)
        d = nodes[i]['params'][j][1][1]
        anc = sorted(ps.closure(nodes, d) - {d})
        starts = [mk[1] for nd in nodes for _, mk in nd['params'] if mk[0] == 'rec']
        if not anc:
            continue
        shared = [x for x in starts if x in anc]
        s0 = rng.choice(shared) if shared and rng.random() < 0.6 else rng.choice(anc)
        if any(mk[0] == 'rec' and mk[2] == d for nd in nodes for _, mk in nd['params']):
            continue
        nodes[i]['params'][j][1] = ['rec', s0, d, rng.choice([1, 2, 3])]
    spec['unnamed_switch'] = rng.random() < 0.3
    spec['unnamed_switches'] = spec['unnamed_switch']      # the engine-level harness's name for the same choice (progspec.node_id_maps)
    ps.spec_defaults(spec)
    return prof, spec


def main():
    prop, seed, n, tier = sys.argv[1], int(sys.argv[2]), int(sys.argv[3]), sys.argv[4]
    from ml_pipeline_engine.dag_builders.annotation import build_dag
    rng = random.Random(seed)
    model = M.Model()
    import oracles as O
    st = collections.Counter()
    dist = collections.Counter()
    violations, k2_broken, samples = [], [], []
    known = collections.Counter()
    distinct = set()
    known_lines = []
    t0 = time.time()
    if prop == 'C15' and seed % 1000 == 0:
        # replay the witness of known finding D13
        kf = [f for f in json.load(open(os.path.join(HERE, '..', 'known_findings.json')))['findings'] if f['id'] == 'D13'][0]
        wspec = json.loads(json.dumps(kf['witness']['spec']))
        wspec['unnamed_switches'] = bool(wspec.get('unnamed_switch'))
        wspec = ps.spec_defaults(wspec)
        wc = materialize(wspec, {}, '_kfD13')
        wd = build_dag(input_node=wc[0], output_node=wc[-1])
        wr = real_graph(wd, ps.node_id_maps(wspec, wc, '_kfD13'))
        dec = declared(wspec)
        missing = [x for x in dec['deliveries'] if wr['edges'].get(json.dumps([x[0], x[1]]), {}).get('kwarg_name') != x[2]]
        if missing:
            known_lines.append(dict(id='D13', what=kf['what'] + ' [witness: parameter %s of %s has no dependency]' % (missing[0][2], missing[0][1])))
    for c in range(n * 2):
        prof, spec = gen_decl(rng)
        nodes = spec['nodes']
        dist['profile:' + prof] += 1
        dist['nodes:%d' % len(nodes)] += 1
        tag = '_%d_%d' % (seed, c)
        flags = O.reference(model, spec)['flags']
        if prop == 'C15':
            classes = materialize(spec, {}, tag)
            try:
                dag = build_dag(input_node=classes[0], output_node=classes[-1])
            except Exception as e:  # noqa: BLE001
                if not (flags['rec_bad_start']):
                    violations.append(dict(kind='property', problems=['a well-formed declaration set does not build: %s: %s' % (type(e).__name__, e)], spec=spec))
                    st['violations'] += 1
                continue
            st['evaluations'] += 1
            to_key = ps.node_id_maps(spec, classes, tag)
            rg = real_graph(dag, to_key, spec)
            res = model.build(spec)
            mg = model_graph(res)
            st['k2_compared'] += 1
            d2 = diff_graph(rg, mg, 'impl', 'model')
            if rg['odd_map']:
                d2.append('node_map has foreign keys %s' % rg['odd_map'])
            if d2:
                st['k2_disagree'] += 1
                if len(k2_broken) < 3:
                    k2_broken.append(dict(diffs=d2[:4], spec=spec))
            dec = declared(spec)
            d1 = diff_graph(rg, dec, 'built', 'declared')
            for u, v, pn in dec['deliveries']:
                if rg['edges'].get(json.dumps([u, v]), {}).get('kwarg_name') != pn:
                    d1.append('declared parameter %s of %s (from %s) has no dependency delivering to it' % (pn, json.dumps(v), json.dumps(u)))
            if rg['input'] != ['n', 0] or rg['output'] != ['n', len(nodes) - 1]:
                d1.append('input/output node ids wrong')
            key = json.dumps(nodes, sort_keys=True)
            if len(nodes) >= 3 and key not in distinct:
                distinct.add(key)
            if d1:
                if flags['dup_source'] or flags['odd_switch'] or flags['rec_conflict']:
                    known['D13'] += 1
                    st['known_finding_instances'] += 1
                else:
                    st['violations'] += 1
                    if len(violations) < 3:
                        violations.append(dict(kind='property', problems=d1[:4], spec=spec, tag=tag))
            if len(samples) < 2:
                samples.append(dict(nodes=[nd['params'] for nd in nodes], built_nodes=len(rg['nodes']), built_edges=len(rg['edges'])))
        else:
            # C16: no defect, one defect, or several
            reach = sorted(reachable(spec))
            r = rng.random()
            dfs = {}
            rec_d = sorted({mk[2] for i in reach for _, mk in nodes[i]['params'] if mk[0] == 'rec'})
            rec_s = sorted({mk[1] for i in reach for _, mk in nodes[i]['params'] if mk[0] == 'rec'})
            if r < 0.15:
                pass
            else:
                k = 1 if r < 0.8 else rng.choice([2, 3])
                for _ in range(k):
                    kind = rng.choice(DEFECTS)
                    if kind == 'no_rec_protocol':
                        if not rec_d:
                            kind = 'no_base'
                        else:
                            dfs.setdefault(rng.choice(rec_d), set()).add(kind)
                            continue
                    if kind == 'no_additional_data':
                        if not rec_s:
                            kind = 'generic'
                        else:
                            dfs.setdefault(rng.choice(rec_s), set()).add(kind)
                            continue
                    pool = reach if rng.random() < 0.85 else list(range(len(nodes)))
                    dfs.setdefault(rng.choice(pool), set()).add(kind)
            # defects that do not combine in Python (an instance has no separate base etc.) are kept single per node
            for i in list(dfs):
                if len(dfs[i]) > 1 and ('not_class' in dfs[i] or 'no_annotations' in dfs[i]):
                    dfs[i] = {sorted(dfs[i])[0]}
                if 'no_annotations' in dfs[i] and nodes[i]['params']:
                    pass
            rs_all = {mk[1] for nd in nodes for _, mk in nd['params'] if mk[0] == 'rec'}
            for i in list(dfs):
                # a process without any annotation at all is the other defect class
                if 'unannotated_param' in dfs[i] and not nodes[i]['params'] and not (i in rs_all and 'no_additional_data' not in dfs[i]) \
                        and 'generic' not in dfs[i]:
                    dfs[i] = (dfs[i] - {'unannotated_param'}) | {'no_annotations'}
                if len(dfs[i]) > 1 and 'no_annotations' in dfs[i]:
                    dfs[i] = {'no_annotations'}
            try:
                classes = materialize(spec, dfs, tag)
            except Exception as e:  # noqa: BLE001
                st['materialize_skipped'] += 1
                continue
            got = None
            try:
                build_dag(input_node=classes[0], output_node=classes[-1])
            except Exception as e:  # noqa: BLE001
                got = type(e).__name__
            st['evaluations'] += 1
            dist['defects:%d' % sum(len(v) for v in dfs.values())] += 1
            for v in dfs.values():
                for x in v:
                    dist['defect:' + x] += 1
            it = M.Interner()
            fields, _ = M.prog_fields(spec, it)
            fl = [[('1' if d in dfs.get(i, ()) else '0') for d in DEFECTS] for i in range(len(nodes))]
            res = model.ask(M.sx(['validate', fields[0], ['flags'] + fl]))
            st['k2_compared'] += 1
            if 'driver_error' in res or res.get('error') != got:
                # KeyError for a recurrent start that is not an ancestor etc. are outside the listed defect classes
                st['k2_disagree'] += 1
                if len(k2_broken) < 3:
                    k2_broken.append(dict(diffs=['impl raised %s, model says %s' % (got, res.get('error', res))], spec=spec,
                                          defects={str(k): sorted(v) for k, v in dfs.items()}))
            key = json.dumps([nodes, {str(k): sorted(v) for k, v in dfs.items()}], sort_keys=True)
            if key not in distinct and dfs:
                distinct.add(key)
            # K1
            probs = []
            effective = {i: v for i, v in dfs.items() if i in reach or v & {'no_rec_protocol', 'no_additional_data'}}
            effective = {i: v for i, v in effective.items()
                         if not (v == {'no_rec_protocol'} and i not in rec_d) and not (v == {'no_additional_data'} and i not in rec_s)}
            if not effective:
                if got is not None:
                    probs.append('a declaration set without reachable defects was rejected with %s' % got)
            else:
                if got is None:
                    probs.append('defects %s were accepted: a DAG was returned' % {k: sorted(v) for k, v in effective.items()})
                elif sum(len(v) for v in effective.values()) == 1:
                    (i, v), = effective.items()
                    want = ERR[next(iter(v))]
                    if got != want:
                        probs.append('defect %s at node %d raised %s instead of %s' % (next(iter(v)), i, got, want))
                elif got not in {ERR[x] for v in effective.values() for x in v}:
                    probs.append('rejected with %s, which is none of the present defects %s' % (got, sorted(x for v in effective.values() for x in v)))
            if probs:
                st['violations'] += 1
                if len(violations) < 3:
                    violations.append(dict(kind='property', problems=probs, spec=spec, defects={str(k): sorted(v) for k, v in dfs.items()}))
            if len(samples) < 2 and dfs:
                samples.append(dict(nodes=[nd['params'] for nd in nodes], defects={str(k): sorted(v) for k, v in dfs.items()}, raised=got))
    model.close()
    print(json.dumps(dict(stats=dict(st), dist=dict(dist), violations=violations, k2_broken=k2_broken, known_hits=dict(known),
                          samples=samples, distinct_nontrivial=len(distinct), wall=time.time() - t0, known=known_lines,
                          rule='declaration sets grown by harness/gen.py over all mark kinds (plus duplicate-source conflicts for D13); '
                               'C15: the real build_dag result vs the extracted builder model and vs the order-free declared relation; '
                               'C16: 15% valid, 65% one defect, 20% two or three defects among the eight defect classes, 85% at reachable nodes; '
                               'non-trivial = at least 3 nodes (C15) / at least one defect (C16); distinct = distinct (declarations, defects)')))


if __name__ == '__main__':
    main()
