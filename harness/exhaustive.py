"""Exhaustive correspondence on catalogue programs: the extracted explorer (coq/Explore/Paths.v) returns, for EVERY transition
of the explored history-free state graph of a program, an action list reaching it from the initial state; the real engine is
driven along every one of them on the virtual loop and compared (K2) with the model run on the same actions: outcome / pending
state, full visible trace, outstanding gates at quiescent points, deadlock verdict. A disagreement means the kind-E theorems
of that program are about a model that is not the code.
usage: exhaustive.py <seed> <tier> <shard> <nshards>        prints one JSON line"""
import collections
import json
import os
import sys
import time

HERE = os.path.dirname(os.path.abspath(__file__))
sys.path.insert(0, HERE)
import runimpl as R  # noqa: E402
import runmodel as M  # noqa: E402

# programs small enough for the quick tier (number of transitions, measured)
QUICK_MAX_PATHS = 1500


def main():
    seed, tier, shard, nshards = int(sys.argv[1]), sys.argv[2], int(sys.argv[3]), int(sys.argv[4])
    cat = json.load(open(os.path.join(HERE, 'corpus', 'catalogue.json')))
    model = M.Model()
    st = collections.Counter()
    per = {}
    broken = []
    t0 = time.time()
    mine = [c for i, c in enumerate(cat) if i % nshards == shard]
    budget = 45 if tier == 'quick' else 3000
    for c in mine:
        if time.time() - t0 > budget:
            st['programs_skipped_time'] += 1
            continue
        spec = c['spec']
        if spec.get('pools', [True, True]) != [True, True]:
            st['programs_skipped_pool_state'] += 1      # the registry state is process-wide: covered by special_modes.py (c)
            continue
        R.ps.spec_defaults(spec)
        it = M.Interner()
        pools = tuple(spec.get('pools', [True, True]))
        fields, _ = M.prog_fields(json.loads(json.dumps(spec)), it, pools=pools)
        res = model.ask(M.sx(['paths'] + fields + [['wc', 1]]))
        paths = res.get('paths')
        if paths is None:
            broken.append(dict(diffs=['explorer out of fuel for ' + c['name']], spec=spec, actions=[]))
            continue
        if tier == 'quick' and len(paths) > QUICK_MAX_PATHS:
            # a rotating sample of the transitions of a big program in the quick tier, all of them in the thorough tier
            paths = [p for j, p in enumerate(paths) if (j + seed) % (len(paths) // 300 + 1) == 0]
            st['programs_sampled'] += 1
        else:
            st['programs_exhaustive'] += 1
        built = None
        n = 0
        for p in paths:
            acts = [a if a[0] != 'g' else ['g', a[1]] for a in p]
            tag = '_x%s_%d' % (c['name'][:12], n)
            try:
                obs = R.run_schedule(json.loads(json.dumps(spec)), R.Exact(acts), tag=tag, drain=False)
            except Exception as e:  # noqa: BLE001
                broken.append(dict(diffs=['harness error on %s: %s: %s' % (c['name'], type(e).__name__, e)], spec=spec, actions=acts))
                continue
            n += 1
            st['transitions'] += 1
            if obs['missing']:
                broken.append(dict(diffs=['%s: the implementation had no such outstanding completion: %d of the actions' % (c['name'], obs['missing'])],
                                   spec=spec, actions=acts, tag=tag))
                continue
            resm = model.run(spec, obs['actions'], obs['orders'], obs['descendants'], pools=pools)
            if resm.get('ambiguous_orders'):
                st['ambiguous_orders'] += 1
                continue
            d = M.compare(obs, resm)
            if d:
                st['disagree'] += 1
                if len(broken) < 4:
                    broken.append(dict(diffs=['%s: %s' % (c['name'], x) for x in d[:3]], spec=spec, actions=acts, tag=tag,
                                       hashseed=os.environ.get('PYTHONHASHSEED')))
        per[c['name']] = n
    model.close()
    print(json.dumps(dict(stats=dict(st), per_program=per, k2_broken=broken, wall=time.time() - t0)))


if __name__ == '__main__':
    main()
