"""Exhaustive correspondence on catalogue programs: the extracted explorer (coq/Explore/Paths.v) returns, for EVERY transition
of the explored history-free state graph of a program, an action list reaching it from the initial state; the real engine is
driven along every one of them on the virtual loop and compared (K2) with the model run on the same actions: outcome / pending
state, full visible trace, outstanding gates at quiescent points, deadlock verdict. A disagreement means the kind-E theorems
of that program are about a model that is not the code.
usage: exhaustive.py <seed> <tier> <shard> <nshards>        prints one JSON line"""
import collections
import json
import os
import sys
import time

HERE = os.path.dirname(os.path.abspath(__file__))
sys.path.insert(0, HERE)
import runimpl as R  # noqa: E402
import runmodel as M  # noqa: E402
import drive as D  # noqa: E402

# programs small enough for the quick tier (number of transitions, measured)
QUICK_MAX_PATHS = 1500


def main():
    seed, tier, shard, nshards = int(sys.argv[1]), sys.argv[2], int(sys.argv[3]), int(sys.argv[4])
    cat = json.load(open(os.path.join(HERE, 'corpus', 'catalogue.json')))
    model = M.Model()
    st = collections.Counter()
    per = {}
    broken = []
    t0 = time.time()
    mine = [c for i, c in enumerate(cat) if i % nshards == shard]
    budget = 45 if tier == 'quick' else 3000
    for c in mine:
        if time.time() - t0 > budget:
            st['programs_skipped_time'] += 1
            continue
        spec = c['spec']
        if spec.get('pools', [True, True]) != [True, True]:
            st['programs_skipped_pool_state'] += 1      # the registry state is process-wide: covered by special_modes.py (c)
            continue
        R.ps.spec_defaults(spec)
        sample = (QUICK_MAX_PATHS, seed) if tier == 'quick' else None
        n, bad, total = D.drive_all(model, spec, '_x' + c['name'][:14], st, sample=sample)
        if tier == 'quick' and total > QUICK_MAX_PATHS:
            st['programs_sampled'] += 1
        else:
            st['programs_exhaustive'] += 1
        for bk in bad:
            st['disagree'] += 1
            if len(broken) < 4:
                broken.append(dict(bk, diffs=['%s: %s' % (c['name'], x) for x in bk['diffs']], hashseed=os.environ.get('PYTHONHASHSEED')))
        per[c['name']] = n
    model.close()
    print(json.dumps(dict(stats=dict(st), per_program=per, k2_broken=broken, wall=time.time() - t0)))


if __name__ == '__main__':
    main()
