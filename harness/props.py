"""Per-property configuration of the engine-level checks (generator weights, collaborators, which oracle decides)."""

# (profile, weight)
ALL = [('plain', 3), ('switch', 2), ('oneof', 2), ('mixed', 3), ('rec', 2), ('rec_open', 1), ('rec_mixed', 1), ('mixed_all', 1)]

ENGINE = {
    'C01': dict(profiles=ALL, retry=0.2, modes=True, managers=[0, 0, 1], stores=['none', 'none', 'record'],
                title='outcome = dataflow semantics, schedule-independent'),
    'C02': dict(profiles=ALL, retry=0.3, modes=True, managers=[0, 1, 2], stores=['none', 'record', 'writeonce'],
                faults=0.35, gated_collab=0.3, title='termination / no deadlock'),
    'C03': dict(profiles=ALL, retry=0.2, modes=True, managers=[0, 1], stores=['none'],
                title='arguments are final values of the declared inputs'),
    'C04': dict(profiles=[('plain', 1), ('switch', 3), ('oneof', 2), ('mixed', 4), ('rec', 2), ('rec_mixed', 1), ('mixed_all', 1)],
                retry=0.25, modes=True, managers=[0, 1, 2], gated_collab=0.5, stores=['none'], sharing=True,
                title='at most one execution per node, run and iteration'),
    'C05': dict(profiles=ALL, retry=0.3, modes=True, managers=[0, 1], stores=['none'], more_fail=True,
                title='failures reported faithfully'),
    'C09': dict(profiles=[('switch', 5), ('mixed', 3), ('rec_mixed', 1), ('mixed_all', 1)], retry=0.1, modes=True,
                managers=[0], stores=['none'], title='switch-case'),
    'C10': dict(profiles=[('oneof', 5), ('mixed', 3), ('oneof_shared', 1), ('mixed_all', 1), ('rec_mixed', 1)], retry=0.15,
                modes=True, managers=[0], stores=['none'], more_fail=True, title='one-of'),
    'C11': dict(profiles=[('rec', 5), ('rec_open', 2), ('rec_mixed', 2)], retry=0.1, modes=True, managers=[0],
                stores=['none'], title='recurrent subgraph'),
    'C12': dict(profiles=[('plain', 3), ('mixed', 2), ('rec', 2), ('rec_open', 2), ('rec_mixed', 1)], retry=0.8, modes=True, managers=[0, 1], stores=['none'],
                title='retry / default policy'),
    'C13': dict(profiles=ALL, retry=0.2, modes=True, managers=[0, 1], stores=['none', 'record'], cancel=0.7,
                gated_collab=0.3, title='nothing left running'),
    'C14': dict(profiles=ALL, retry=0.3, modes=True, managers=[1, 1, 2], stores=['none', 'record'], gated_collab=0.5,
                title='lifecycle events'),
    'C19': dict(profiles=[('plain', 2), ('switch', 4), ('oneof', 2), ('mixed', 4), ('rec', 1)], retry=0.15, modes=True,
                managers=[0, 1, 1], stores=['record', 'writeonce'], gated_collab=0.5, title='artifact store'),
}

# Known findings: genuine defects of the pinned engine that are recorded, not repaired (see DESIGN 3.6 and
# known_findings.json). `trigger` names a decidable program-shape predicate of coq/Spec/Fragments.v; a failure of one of
# `properties` on a program satisfying the trigger is an instance of the finding, anything else is a violation.
