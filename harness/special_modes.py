"""C17: (a) the same program under different assignments of execution modes on the virtual loop: every assignment gives
the outcome of the reference semantics (which ignores modes), and the model agrees (K2);
(b) a sample on a REAL event loop with REAL thread and fork-process pools (uncontrolled timing) against the reference;
(c) pool registry states (never registered / shut down) in fresh subprocesses: error result, no body invoked."""
import collections
import json
import os
import random
import subprocess
import sys
import time

HERE = os.path.dirname(os.path.abspath(__file__))
sys.path.insert(0, HERE)
REPO = os.environ.get('VERIF_REPO', '/repo')
sys.path.insert(0, REPO)
import gen as G  # noqa: E402
import oracles as O  # noqa: E402
import progspec as ps  # noqa: E402
import runimpl as R  # noqa: E402
import runmodel as M  # noqa: E402

MODES = ['gated', 'immediate', 'inline', 'thread', 'process']

REAL_POOL_SCRIPT = r'''
import asyncio, json, os, sys, importlib, tempfile, shutil, logging
logging.disable(logging.CRITICAL)
sys.path.insert(0, os.environ['VERIF_HARNESS']); sys.path.insert(0, os.environ.get('VERIF_REPO', '/repo'))
import progspec as ps
cases = json.load(open(sys.argv[1]))
from concurrent.futures import ThreadPoolExecutor, ProcessPoolExecutor
from multiprocessing import get_context
from ml_pipeline_engine.parallelism import process_pool_registry, threads_pool_registry
from ml_pipeline_engine.chart import PipelineChart
from ml_pipeline_engine.dag_builders.annotation import build_dag
tmp = tempfile.mkdtemp(prefix='verif_c17_'); sys.path.insert(0, tmp)
out = []
try:
    # node classes must be importable for the process pool: write them out as a module, import, then start the pools
    src = ['import sys, os', 'import progspec as ps', 'from ml_pipeline_engine.dag_builders.annotation.marks import Input, InputOneOf, SwitchCase, RecurrentSubGraph',
           'from ml_pipeline_engine.node import RecurrentProcessor', 'from ml_pipeline_engine.node.enums import NodeTag', 'import typing as t', '']
    for ci, case in enumerate(cases):
        spec = case['spec']; nodes = spec['nodes']
        rec_starts = {mk[1] for nd in nodes for _, mk in nd['params'] if mk[0] == 'rec'}
        for i, nd in enumerate(nodes):
            anns = []
            for j, (pn, m) in enumerate(nd['params']):
                if m[0] == 'in': a = 'Input(C%d_N%d)' % (ci, m[1])
                elif m[0] == 'sw': a = 'SwitchCase(switch=C%d_N%d, cases=[%s], name=%r)' % (ci, m[1], ', '.join('(%r, C%d_N%d)' % (l, ci, c) for l, c in m[2]), 'c%d_s%d_%d' % (ci, i, j))
                elif m[0] == 'oneof': a = 'InputOneOf([%s])' % ', '.join('C%d_N%d' % (ci, c) for c in m[1])
                else: a = 'RecurrentSubGraph(start_node=C%d_N%d, dest_node=C%d_N%d, max_iterations=%d)' % (ci, m[1], ci, m[2], m[3])
                anns.append((pn, a))
            if i in rec_starts: anns.append(('additional_data', 't.Any'))
            mode = nd['mode']
            tags = {'inline': '(NodeTag.non_async,)', 'process': '(NodeTag.process,)'}.get(mode, '()')
            is_async = mode in ('gated', 'immediate')
            sig = '**kwargs'
            body = ['        return ps.pure_compute(%d, %r, kwargs, self)' % (i, json.dumps(nd))]
            src += ['class C%d_N%d(RecurrentProcessor):' % (ci, i), '    name = %r' % ('c%d_n%d' % (ci, i)), '    tags = %s' % tags,
                    '    use_default = %r' % nd['use_default'], '    attempts = %r' % nd['attempts'], '    delay = %r' % (0 if nd['delay'] else nd['delay']),
                    '    exceptions = %s' % ('None' if nd['exceptions'] is None else '(' + ''.join('ps.EXC[%r], ' % c for c in nd['exceptions']) + ')'),
                    '    %sdef process(self, %s):' % ('async ' if is_async else '', sig)] + body + \
                   ['    def get_default(self, **kwargs):', '        return ("d", %d, tuple(sorted((ps.canon_key(k), v) for k, v in kwargs.items())))' % i, '']
            src.append('C%d_N%d.process.__annotations__ = {%s}' % (ci, i, ', '.join('%r: %s' % (pn, a) for pn, a in anns)))
            src.append('')
    open(os.path.join(tmp, 'verif_c17_nodes.py'), 'w').write('\n'.join(src) + '\n')
    mod = importlib.import_module('verif_c17_nodes')
    from multiprocessing import Manager
    threads_pool_registry.register_pool_executor(ThreadPoolExecutor(max_workers=4))
    class _M:
        def shutdown(self): pass
    process_pool_registry.register_manager(_M())
    process_pool_registry.register_pool_executor(ProcessPoolExecutor(max_workers=3, mp_context=get_context('fork')))
    async def run_all():
        for ci, case in enumerate(cases):
            n = len(case['spec']['nodes'])
            chart = PipelineChart('m', build_dag(getattr(mod, 'C%d_N0' % ci), getattr(mod, 'C%d_N%d' % (ci, n - 1))))
            try:
                r = await asyncio.wait_for(chart.run(input_kwargs=dict(case['spec']['input_kwargs'])), timeout=60)
                out.append(['value', ps.canon(r.value)] if r.error is None else ['error', ps.canon(r.error)])
            except asyncio.TimeoutError:
                out.append(['timeout'])
            except BaseException as e:
                out.append(['raised', ps.canon(e)])
    asyncio.run(run_all())
    threads_pool_registry.shutdown(); process_pool_registry._pool_executor.shutdown()
finally:
    shutil.rmtree(tmp, ignore_errors=True)
print(json.dumps(out))
'''

REGISTRY_SCRIPT = r'''
import asyncio, json, os, sys, logging
logging.disable(logging.CRITICAL)
sys.path.insert(0, os.environ['VERIF_HARNESS']); sys.path.insert(0, os.environ.get('VERIF_REPO', '/repo'))
from concurrent.futures import ThreadPoolExecutor, ProcessPoolExecutor
from ml_pipeline_engine.parallelism import process_pool_registry, threads_pool_registry
from ml_pipeline_engine.chart import PipelineChart
from ml_pipeline_engine.dag_builders.annotation import build_dag
from ml_pipeline_engine.dag_builders.annotation.marks import Input
from ml_pipeline_engine.node import ProcessorBase
from ml_pipeline_engine.node.enums import NodeTag
state, mode, variant = sys.argv[1], sys.argv[2], sys.argv[3]
CALLS = []
if mode.startswith('mixed'):
    # a thread-pool node AND a process-pool node in one pipeline: both pools are needed, one of them is missing
    class A(ProcessorBase):
        name = 'a'
        tags = (NodeTag.process,) if mode == 'mixed_thread_missing' else ()
        def process(self, x: int):
            CALLS.append('a'); return x
else:
    class A(ProcessorBase):
        name = 'a'
        async def process(self, x: int):
            CALLS.append('a'); return x
class B(ProcessorBase):
    name = 'b'
    tags = (NodeTag.process,) if mode in ('process', 'mixed_process_missing') else ()
    use_default = variant == 'default'
    attempts = 2 if variant == 'retry' else None
    def process(self, a: Input(A)):
        CALLS.append('b'); return a + 1
    def get_default(self, **kw):
        CALLS.append('b.default'); return -1
class C(ProcessorBase):
    name = 'c'
    async def process(self, b: Input(B)):
        CALLS.append('c'); return b * 2
class _M:
    def shutdown(self): pass
other_t = ThreadPoolExecutor(max_workers=1); other_p = ProcessPoolExecutor(max_workers=1)
if mode in ('thread', 'mixed_thread_missing'):
    process_pool_registry.register_manager(_M()); process_pool_registry.register_pool_executor(other_p)
    if state == 'shutdown':
        threads_pool_registry.register_pool_executor(other_t); other_t.shutdown()
else:
    threads_pool_registry.register_pool_executor(other_t)
    if state == 'shutdown':
        process_pool_registry.register_manager(_M()); process_pool_registry.register_pool_executor(other_p); other_p.shutdown()
    elif state == 'no_manager':
        process_pool_registry.register_pool_executor(other_p)
async def go():
    chart = PipelineChart('m', build_dag(A, C))
    if state == 'shutdown_after_run':
        # the pools are alive for a first run of this very chart, then the needed one is shut down: the next run must fail fast too
        if mode in ('thread', 'mixed_thread_missing'):
            threads_pool_registry.register_pool_executor(other_t)
        else:
            process_pool_registry.register_manager(_M()); process_pool_registry.register_pool_executor(other_p)
        r0 = await asyncio.wait_for(chart.run(input_kwargs=dict(x=1)), timeout=20)
        if r0.error is not None:
            return dict(harness_error='first run failed: %r' % r0.error)
        del CALLS[:]
        (other_t if mode in ('thread', 'mixed_thread_missing') else other_p).shutdown()
    try:
        r = await asyncio.wait_for(chart.run(input_kwargs=dict(x=1)), timeout=20)
        return dict(value=repr(r.value), error=None if r.error is None else type(r.error).__name__, calls=CALLS)
    except asyncio.TimeoutError:
        return dict(hang=True, calls=CALLS)
print(json.dumps(asyncio.run(go())))
os._exit(0)
'''


def main():
    prop, seed, n, tier = sys.argv[1], int(sys.argv[2]), int(sys.argv[3]), sys.argv[4]
    rng = random.Random(seed)
    model = M.Model()
    st = collections.Counter()
    dist = collections.Counter()
    violations, k2_broken, samples = [], [], []
    distinct = set()
    t0 = time.time()
    env = dict(os.environ, VERIF_HARNESS=HERE, PYTHONPATH=REPO)
    real_cases = []
    # ---- (a) virtual loop: same program, several mode assignments
    for c in range(max(1, n // 2)):
        prof = rng.choice(['plain', 'switch', 'oneof', 'mixed', 'rec', 'mixed'])
        base = G.gen_program(rng, **dict(G.PROFILES[prof], retry=0.15))
        ps.spec_defaults(base)
        ref = O.reference(model, base)
        if not (ref['flags']['Plain'] or ref['flags']['Sw'] or ref['flags']['OneOfX'] or ref['flags']['RecWN']):
            continue
        outs = []
        for a in range(3):
            spec = json.loads(json.dumps(base))
            for nd in spec['nodes']:
                nd['mode'] = rng.choice(MODES)
            pol = R.RandomBatch(rng) if a % 2 == 0 else R.RandomStep(rng)
            tag = '_%d_%d_%d' % (seed, c, a)
            obs = R.run_schedule(json.loads(json.dumps(spec)), pol, tag=tag)
            st['evaluations'] += 1
            for nd in spec['nodes']:
                dist['mode:' + nd['mode']] += 1
            res = model.run(spec, obs['actions'], obs['orders'], obs['descendants'], obs=obs)
            if not res.get('ambiguous_orders'):
                st['k2_compared'] += 1
                d = M.compare(obs, res)
                if d:
                    st['k2_disagree'] += 1
                    if len(k2_broken) < 3:
                        k2_broken.append(dict(diffs=d[:3], spec=spec, actions=obs['actions'], tag=tag))
            P = O.check_run(spec, obs, ref)
            probs = P['C01'] + P['C02']
            outs.append(obs['runs'][0]['outcome'])
            key = json.dumps([spec['nodes'], obs['actions']], sort_keys=True)
            if key not in distinct:
                distinct.add(key)
            if probs:
                st['violations'] += 1
                if len(violations) < 3:
                    violations.append(dict(kind='property', problems=['under modes %s: %s' % ([nd['mode'] for nd in spec['nodes']], probs[0])],
                                           spec=spec, actions=obs['actions'], tag=tag))
            if len(samples) < 2:
                samples.append(dict(modes=[nd['mode'] for nd in spec['nodes']], nodes=[nd['params'] for nd in spec['nodes']], outcome=outs[-1][:1]))
        if len(real_cases) < (6 if tier == 'quick' else 40) and rng.random() < 0.5 and all(len(set(map(str, nd['fails']))) <= 1 and (nd['attempts'] or 1) == 1 for nd in base['nodes']):
            spec = json.loads(json.dumps(base))
            for nd in spec['nodes']:
                nd['mode'] = rng.choice(['immediate', 'inline', 'thread', 'thread', 'process', 'process'])
            real_cases.append(dict(spec=spec, ref=ref['result']))
    # ---- (b) real pools, real loop (one subprocess for the batch)
    if real_cases and seed % 1000 < 3:
        import tempfile
        with tempfile.NamedTemporaryFile('w', suffix='.json', delete=False) as f:
            json.dump(real_cases, f)
            path = f.name
        try:
            p = subprocess.run([sys.executable, '-c', REAL_POOL_SCRIPT, path], env=env, stdout=subprocess.PIPE, stderr=subprocess.PIPE, text=True, timeout=600)
            outs = json.loads(p.stdout.strip().splitlines()[-1]) if p.stdout.strip() else None
        except Exception as e:  # noqa: BLE001
            outs = None
            p = None
        finally:
            os.unlink(path)
        if outs is None:
            violations.append(dict(kind='harness-error', problems=['real-pool sample failed: ' + ((p.stderr or '')[-400:] if p else 'timeout')]))
            st['violations'] += 1
        else:
            for case, o in zip(real_cases, outs):
                st['evaluations'] += 1
                st['real_pool_runs'] += 1
                rres = case['ref']
                ok = (o[0] == 'value' and rres[0] == 'ok' and o[1] == rres[1]) or (o[0] == 'error' and rres[0] == 'fail' and o[1] in rres[1]) \
                    or (o[0] == 'raised' and rres[0] == 'fail' and o[1] in rres[1])
                if not ok:
                    st['violations'] += 1
                    if len(violations) < 4:
                        violations.append(dict(kind='property', problems=['real thread/process pools: outcome %s, reference %s under modes %s'
                                                                          % (json.dumps(o)[:160], json.dumps(rres)[:160], [nd['mode'] for nd in case['spec']['nodes']])],
                                               spec=case['spec']))
    # ---- (c) registry states (only one worker does it)
    if seed % 1000 == 0:
        for mode, state in [('thread', 'never'), ('thread', 'shutdown'), ('process', 'never'), ('process', 'shutdown'), ('process', 'no_manager'),
                            ('thread', 'shutdown_after_run'), ('process', 'shutdown_after_run'),
                            ('mixed_process_missing', 'never'), ('mixed_process_missing', 'shutdown'), ('mixed_process_missing', 'shutdown_after_run'),
                            ('mixed_thread_missing', 'never'), ('mixed_thread_missing', 'shutdown')]:
            for variant in ('plain', 'default', 'retry'):
                try:
                    p = subprocess.run([sys.executable, '-c', REGISTRY_SCRIPT, state, mode, variant], env=env, stdout=subprocess.PIPE, stderr=subprocess.PIPE,
                                       text=True, timeout=120)
                    r = json.loads(p.stdout.strip().splitlines()[-1])
                except Exception as e:  # noqa: BLE001
                    r = dict(harness_error=str(e))
                st['evaluations'] += 1
                st['registry_state_runs'] += 1
                dist['registry:%s/%s/%s' % (mode, state, variant)] += 1
                bad = None
                if r.get('hang'):
                    bad = 'the run hangs'
                elif r.get('harness_error'):
                    bad = 'harness: ' + r['harness_error']
                elif r.get('error') != 'RuntimeError':
                    bad = 'result is %s / error %s instead of a RuntimeError result' % (r.get('value'), r.get('error'))
                elif r.get('calls'):
                    bad = 'node bodies were invoked before the failure: %s' % r['calls']
                if bad:
                    st['violations'] += 1
                    violations.append(dict(kind='property', problems=['%s pool %s (%s node): %s' % (mode, state, variant, bad)]))
    model.close()
    print(json.dumps(dict(stats=dict(st), dist=dict(dist), violations=violations, k2_broken=k2_broken, known_hits={}, samples=samples,
                          distinct_nontrivial=len(distinct), wall=time.time() - t0,
                          rule='(a) programs of the proved fragments grown by harness/gen.py, each run under 3 random assignments of the five execution modes '
                               '(coroutine gated / coroutine immediate / non_async inline / thread pool / process pool) and random schedules on the virtual loop, '
                               'each outcome against the reference semantics and the extracted model; (b) a sample of such programs on a real asyncio loop with a '
                               'real ThreadPoolExecutor and a real fork ProcessPoolExecutor against the reference; (c) 36 registry states x node variants (incl. pipelines that need both pools with only one of them alive) (incl. a pool shut down between two runs of one chart) in '
                               'fresh subprocesses (pool never registered / shut down / no manager; plain, use_default, retry); non-trivial = every (a) case; '
                               'distinct = distinct (program with modes, action list)')))


if __name__ == '__main__':
    main()
