"""./check <ID> [--tier quick|thorough] [--replay file]

Decides one property on /repo's current working tree:
  1. regenerates gen/Tables.v from /repo, rebuilds the Coq development (full .vo) and the extracted model driver;
  2. audits the development (no Admitted/axioms/disabled checks) and re-checks the property's theorem file, collecting
     the `Print Assumptions` output of every theorem in it;
  3. replays the defect corpus (fixed defects must stay fixed) and the known-finding witnesses;
  4. runs the correspondence (K2: extracted model vs the real engine on a virtual loop) and the property's oracle
     (K1: on the implementation's own observations, against the extracted reference semantics) on generated cases;
  5. writes evidence/<ID>.json; prints VIOLATION lines and exits 1 if anything failed.
"""
import argparse
import collections
import json
import os
import re
import subprocess
import sys
import time

HERE = os.path.dirname(os.path.abspath(__file__))
ROOT = os.path.abspath(os.path.join(HERE, '..'))
sys.path.insert(0, HERE)
import props  # noqa: E402

PY = '/venv/bin/python'
SPECIAL = {'C06': 'special_c06.py', 'C07': 'special_multi.py', 'C08': 'special_multi.py', 'C15': 'special_builder.py',
           'C16': 'special_builder.py', 'C17': 'special_modes.py', 'C18': 'special_fsstore.py', 'C20': 'special_viewer.py'}
FORBIDDEN = r'\b(Admitted|admit|Axiom|Axioms|Parameter|Parameters|Conjecture|Conjectures|Admit Obligations)\b|Unset Guard|bypass_check|type-in-type|impredicative-set|Unset Universe Checking|Unset Positivity'
# properties with kind-E theorems: the model is additionally driven against the real engine along EVERY transition of the explored
# state graph of every catalogue program (harness/exhaustive.py)
E_PROPS = {'C01', 'C02', 'C03', 'C04', 'C05', 'C06', 'C07', 'C08', 'C09', 'C10', 'C11', 'C14', 'C17', 'C19'}
# properties for which generated small programs are model-checked for ALL schedules by the extracted explorer and the real engine is
# driven along every transition of their state graphs (harness/modelcheck.py)
MC_PROPS = {'C01', 'C02', 'C03', 'C04', 'C05', 'C06', 'C09', 'C10', 'C11', 'C13', 'C14', 'C19'}
ALLOWED_AXIOMS = set()     # the development targets "Closed under the global context" everywhere

TRUSTED_BASE = [
    'Coq 8.16.1 kernel (coqc, full .vo build; vm_compute used for witnesses and table lemmas; no native_compute)',
    'axioms: none declared; every property theorem must print "Closed under the global context"',
    'hand-written Coq model of dag/manager.py, chart.py, events.py, storage.py, graph.py, builder.py (coq/Engine, coq/Pure) '
    'with asyncio semantics A1-A9 of DESIGN 3.2 -- tied to /repo by the correspondence check of this run, not verified',
    'extraction: Coq Extraction with ExtrOcamlBasic only (Extract Inductive bool/option/unit/list/prod/sumbool/sumor/comparison); '
    'no Extract Constant; OCaml 4.13.1; coq/Extract/main.ml (parsing/printing) is hand-written',
    'harness: virtual event loop (harness/vloop.py), program materialisation, oracles (Python) -- trusted for the tie only',
    'translator harness/translate_tables.py (enum members and NodeRetryPolicy defaults -> coq/gen/Tables.v, fail-closed)',
    'modelled, not verified: node bodies / event callbacks / store calls (gates with scripted outcomes), networkx orders '
    '(recorded from the run and fed to the model as oracles), Python introspection in the builder, pickle/json, the OS file system, '
    'real thread/process pools',
]


def sh(cmd, timeout=3600, env=None, cwd=ROOT):
    p = subprocess.run(cmd, shell=isinstance(cmd, str), cwd=cwd, env=env, stdout=subprocess.PIPE, stderr=subprocess.STDOUT,
                       text=True, timeout=timeout)
    return p.returncode, p.stdout


def build():
    rc, out = sh(['bash', os.path.join(ROOT, 'build.sh')], timeout=3000)
    ok = rc == 0 and 'BUILD-OK' in out
    return ok, out[-3000:]


def audit():
    bad = []
    for dp, _, fs in os.walk(os.path.join(ROOT, 'coq')):
        for f in fs:
            if f.endswith('.v'):
                p = os.path.join(dp, f)
                txt = open(p, errors='replace').read()
                # strip comments (non-nested approximation is unsafe: do a real nested strip)
                txt = strip_comments(txt)
                for m in re.finditer(FORBIDDEN, txt):
                    bad.append('%s: %s' % (os.path.relpath(p, ROOT), m.group(0)))
    proj = open(os.path.join(ROOT, 'coq', '_CoqProject')).read()
    if re.search(r'type-in-type|impredicative-set|-vos|-vok', proj):
        bad.append('_CoqProject: forbidden flag')
    return bad


def strip_comments(txt):
    out = []
    depth = 0
    i = 0
    n = len(txt)
    in_str = False
    while i < n:
        if not in_str and txt.startswith('(*', i):
            depth += 1
            i += 2
            continue
        if not in_str and depth and txt.startswith('*)', i):
            depth -= 1
            i += 2
            continue
        c = txt[i]
        if depth == 0:
            if c == '"':
                in_str = not in_str
            out.append(c)
        i += 1
    return ''.join(out)


def theorem_file(prop):
    return os.path.join(ROOT, 'coq', 'Properties', prop + '.v')


def check_theorems(prop):
    """Re-compile Properties/<ID>.v on its own and read the Print Assumptions output."""
    path = theorem_file(prop)
    res = dict(file=os.path.relpath(path, ROOT), theorems=[], ok=True, output='')
    if not os.path.exists(path):
        res['ok'] = False
        res['missing'] = True
        return res
    src = strip_comments(open(path).read())
    names = re.findall(r'^\s*(?:Theorem|Lemma|Corollary)\s+([A-Za-z0-9_\']+)', src, re.M)
    printed = re.findall(r'Print Assumptions\s+([A-Za-z0-9_\'.]+)\s*\.', src)
    import tempfile
    tmp = tempfile.mkdtemp(prefix='verif_thm_')
    try:
        rc, out = sh(['coqc', '-Q', '.', 'MLPE', '-o', os.path.join(tmp, prop + '.vo'),
                      os.path.relpath(path, os.path.join(ROOT, 'coq'))], timeout=900, cwd=os.path.join(ROOT, 'coq'))
    finally:
        subprocess.run(['rm', '-rf', tmp])
    res['output'] = out[-4000:]
    if rc != 0:
        res['ok'] = False
        res['error'] = 'coqc failed'
        return res
    blocks = re.split(r'(?=Closed under the global context|Axioms:)', out)
    verdicts = [b for b in blocks if b.startswith('Closed under') or b.startswith('Axioms:')]
    axioms = []
    for b in verdicts:
        if b.startswith('Axioms:'):
            axioms += re.findall(r'^([A-Za-z0-9_.\']+)\s*:', b, re.M)
    res['theorems'] = names
    res['printed'] = printed
    res['closed'] = sum(1 for b in verdicts if b.startswith('Closed under'))
    res['axioms'] = sorted(set(axioms))
    if set(names) - set(p.split('.')[-1] for p in printed):
        res['ok'] = False
        res['error'] = 'theorems without Print Assumptions: %s' % sorted(set(names) - set(printed))
    if len(verdicts) != len(printed):
        res['ok'] = False
        res['error'] = 'Print Assumptions output incomplete'
    if set(axioms) - ALLOWED_AXIOMS:
        res['ok'] = False
        res['error'] = 'axioms not in the trusted base: %s' % sorted(set(axioms) - ALLOWED_AXIOMS)
    return res


def run_coqchk(prop):
    """thorough tier: re-check the compiled theorem file and everything it depends on with Coq's independent checker;
    -o lists the axioms of the whole dependency cone (expected: none)."""
    t0 = time.time()
    try:
        rc, out = sh(['coqchk', '-silent', '-o', '-Q', '.', 'MLPE', 'MLPE.Properties.' + prop], timeout=3600, cwd=os.path.join(ROOT, 'coq'))
    except subprocess.TimeoutExpired:
        return dict(ok=False, error='coqchk timed out', wall_s=round(time.time() - t0, 1))
    m = re.search(r'\* Axioms:\s*(.*?)\n\s*\n', out, re.S)
    axioms = (m.group(1).strip() if m else 'not reported')
    ok = rc == 0 and axioms == '<none>' and 'type-in-type: <none>' in out.replace('\n', ' ').replace('  ', ' ')
    return dict(ok=bool(ok), rc=rc, axioms=axioms, wall_s=round(time.time() - t0, 1), tail=out[-600:])


def write_replay(prop, idx, case):
    d = os.path.join(ROOT, 'evidence', 'replay')
    os.makedirs(d, exist_ok=True)
    p = os.path.join(d, '%s-%d.json' % (prop, idx))
    with open(p, 'w') as f:
        json.dump(case, f, indent=1, sort_keys=True)
    return p


def run_workers(prop, seed, tier, budget):
    script = SPECIAL.get(prop, 'worker.py')
    nw = int(os.environ.get('VERIF_WORKERS', '8' if tier == 'quick' else '14'))
    per = max(1, budget // nw)
    procs = []
    for w in range(nw):
        env = dict(os.environ, PYTHONHASHSEED=str((seed * 31 + w) % 1000), PYTHONPATH=os.environ.get('VERIF_REPO', '/repo'),
                   PYTHONDONTWRITEBYTECODE='1', VERIF_REPO=os.environ.get('VERIF_REPO', '/repo'))
        procs.append(subprocess.Popen([PY, os.path.join(HERE, script), prop, str(seed * 1000 + w), str(per), tier],
                                      stdout=subprocess.PIPE, stderr=subprocess.PIPE, text=True, env=env, cwd=HERE))
    results = []
    errors = []
    for p in procs:
        try:
            out, err = p.communicate(timeout=7200)
        except subprocess.TimeoutExpired:
            p.kill()
            errors.append('worker timeout')
            continue
        line = out.strip().splitlines()[-1] if out.strip() else ''
        try:
            results.append(json.loads(line))
        except Exception:  # noqa: BLE001
            errors.append('worker failed: ' + (err or out)[-600:])
    return results, errors


def run_exhaustive(seed, tier):
    """all shards of harness/exhaustive.py; returns (stats, per_program, broken, errors)"""
    n = 8
    procs = []
    for w in range(n):
        env = dict(os.environ, PYTHONHASHSEED=str((seed * 17 + w) % 1000), PYTHONPATH=os.environ.get('VERIF_REPO', '/repo'),
                   PYTHONDONTWRITEBYTECODE='1', VERIF_REPO=os.environ.get('VERIF_REPO', '/repo'))
        procs.append(subprocess.Popen([PY, os.path.join(HERE, 'exhaustive.py'), str(seed), tier, str(w), str(n)],
                                      stdout=subprocess.PIPE, stderr=subprocess.PIPE, text=True, env=env, cwd=HERE))
    stats, per, broken, errors = collections.Counter(), {}, [], []
    for p in procs:
        try:
            out, err = p.communicate(timeout=7200)
            r = json.loads(out.strip().splitlines()[-1])
            stats.update(r['stats'])
            per.update(r['per_program'])
            broken += r['k2_broken']
        except Exception as e:  # noqa: BLE001
            errors.append('exhaustive correspondence worker failed: %s' % e)
    return stats, per, broken, errors


CERTS = []


def run_modelcheck(prop, seed, tier):
    n = 8
    procs = []
    for w in range(n):
        env = dict(os.environ, PYTHONHASHSEED=str((seed * 13 + w) % 1000), PYTHONPATH=os.environ.get('VERIF_REPO', '/repo'),
                   PYTHONDONTWRITEBYTECODE='1', VERIF_REPO=os.environ.get('VERIF_REPO', '/repo'))
        procs.append(subprocess.Popen([PY, os.path.join(HERE, 'modelcheck.py'), prop, str(seed), tier, str(w), str(n)],
                                      stdout=subprocess.PIPE, stderr=subprocess.PIPE, text=True, env=env, cwd=HERE))
    stats, viol, broken, samples, errors = collections.Counter(), [], [], [], []
    for p in procs:
        try:
            out, err = p.communicate(timeout=7200)
            r = json.loads(out.strip().splitlines()[-1])
            stats.update(r['stats'])
            viol += r['violations']
            broken += r['k2_broken']
            samples += r['samples']
            CERTS.extend(r.get('certs', []))
        except Exception as e:  # noqa: BLE001
            errors.append('model-checking worker failed: %s %s' % (e, (err or '')[-300:] if 'err' in dir() else ''))
    return stats, viol, broken, samples, errors


def merge(results):
    agg = dict(stats=collections.Counter(), dist=collections.Counter(), violations=[], k2_broken=[], known_hits=collections.Counter(),
               samples=[], distinct_nontrivial=0, known=[], rule=None)
    for r in results:
        for k in r.get('known', []):
            if k['id'] not in [x['id'] for x in agg['known']]:
                agg['known'].append(k)
        agg['rule'] = agg['rule'] or r.get('rule')
        agg['stats'].update(r.get('stats', {}))
        agg['dist'].update(r.get('dist', {}))
        agg['violations'] += r.get('violations', [])
        agg['k2_broken'] += r.get('k2_broken', [])
        agg['known_hits'].update(r.get('known_hits', {}))
        agg['samples'] += r.get('samples', [])
        agg['distinct_nontrivial'] += r.get('distinct_nontrivial', 0)
    return agg


def replay_corpus(prop):
    """Fixed defects must stay fixed; known-finding witnesses are replayed and reported."""
    env = dict(os.environ, PYTHONHASHSEED='0', PYTHONPATH=os.environ.get('VERIF_REPO', '/repo'), PYTHONDONTWRITEBYTECODE='1')
    rc, out = sh([PY, os.path.join(HERE, 'replay.py'), 'corpus', prop], env=env, timeout=900, cwd=HERE)
    try:
        return json.loads(out.strip().splitlines()[-1])
    except Exception:  # noqa: BLE001
        return dict(error=out[-800:], regressions=[], known=[])


def main():
    ap = argparse.ArgumentParser()
    ap.add_argument('prop')
    ap.add_argument('--tier', default=os.environ.get('VERIF_TIER', 'quick'))
    ap.add_argument('--replay')
    a = ap.parse_args()
    prop, tier = a.prop, a.tier
    seed = int(os.environ.get('VERIF_SEED', '1'))
    t0 = time.time()
    if a.replay:
        a.replay = os.path.abspath(a.replay)
        env = dict(os.environ, PYTHONHASHSEED=str(json.load(open(a.replay)).get('hashseed') or 0),
                   PYTHONPATH=os.environ.get('VERIF_REPO', '/repo'), PYTHONDONTWRITEBYTECODE='1')
        rc, out = sh([PY, os.path.join(HERE, 'replay.py'), 'file', prop, a.replay], env=env, cwd=HERE)
        print(out)
        sys.exit(rc)

    manifest = json.load(open(os.path.join(ROOT, 'MANIFEST.json')))
    entry = next((c for c in manifest['checks'] if c['property_id'] == prop), None)
    level = entry['level_claimed']['category'] if entry else 'proof'
    violations = []      # (message, replay path)
    notes = []
    rd = os.path.join(ROOT, 'evidence', 'replay')
    if os.path.isdir(rd):
        for f in os.listdir(rd):
            if f.startswith(prop + '-'):
                os.remove(os.path.join(rd, f))

    ok_build, build_out = build()
    obligations_broken = []
    if not ok_build:
        obligations_broken.append('build of the Coq development / model driver failed: ' + build_out[-400:].replace('\n', ' | '))
    bad = audit()
    if bad:
        obligations_broken.append('forbidden constructs in the development: ' + '; '.join(bad[:5]))
    thm = check_theorems(prop) if ok_build else dict(ok=False, theorems=[], error='not built', file=theorem_file(prop))
    if not thm['ok']:
        obligations_broken.append('theorem file %s does not check: %s' % (thm.get('file'), thm.get('error', 'missing')))
    chk = None
    if tier == 'thorough' and ok_build and thm['ok']:
        chk = run_coqchk(prop)
        if not chk['ok']:
            obligations_broken.append('coqchk does not accept Properties/%s.vo with an empty axiom list: %s' % (prop, json.dumps(chk)[:300]))

    budget = {'quick': 1200, 'thorough': 16000}[tier]
    agg = dict(stats=collections.Counter(), dist=collections.Counter(), violations=[], k2_broken=[], known_hits=collections.Counter(),
               samples=[], distinct_nontrivial=0, known=[], rule=None)
    corpus = dict(regressions=[], known=[])
    worker_errors = []
    if os.path.exists(os.path.join(ROOT, 'coq', 'Extract', 'model_driver')):
        corpus = replay_corpus(prop)
        if corpus.get('error'):
            worker_errors.append('corpus replay failed: ' + corpus['error'])
        results, worker_errors2 = run_workers(prop, seed, tier, budget)
        worker_errors += worker_errors2
        agg = merge(results)
        if prop in E_PROPS:
            xs, xper, xbroken, xerr = run_exhaustive(seed, tier)
            worker_errors += xerr
            agg['exhaustive'] = dict(stats=dict(xs), per_program=xper)
            agg['k2_broken'] += [dict(b, diffs=['catalogue program, exhaustive correspondence: ' + d for d in b['diffs']]) for b in xbroken]
            agg['stats']['k2_compared'] += xs.get('transitions', 0)
            agg['stats']['k2_disagree'] += xs.get('disagree', 0)
        if prop in MC_PROPS:
            ms, mviol, mbroken, msamples, merr = run_modelcheck(prop, seed, tier)
            worker_errors += merr
            agg['modelcheck'] = dict(stats=dict(ms), samples=msamples[:2],
                                     fresh_certificates=dict(
                                         note='programs generated in this run for which coqc checked, by vm_compute of certify (Explore/Safe.v) and the '
                                              'general lemmas of Proofs/CertLemmas.v, the all-schedule theorem fresh_program_all_schedules '
                                              '(harness/freshcert.py), with the orders recorded from the real chart, and along every transition of '
                                              'whose state graph the real engine was driven and compared with the model',
                                         checked=int(ms.get('fresh_certificates_checked', 0)), programs=CERTS[:24]))
            agg['violations'] += mviol
            agg['k2_broken'] += mbroken
            agg['stats']['k2_compared'] += ms.get('transitions', 0)
            agg['stats']['k2_disagree'] += ms.get('disagree', 0)
    else:
        worker_errors.append('model driver missing')

    for k in corpus.get('known', []) + agg.get('known', []):
        print('KNOWN-FINDING: property=%s %s: %s' % (prop, k['id'], k['what']))
    idx = 0
    for r in corpus.get('regressions', []):
        idx += 1
        p = write_replay(prop, idx, r)
        violations.append(('fixed defect %s is back: %s' % (r.get('id'), '; '.join(r.get('problems', []))[:200]), p, False))
    for v in agg['violations']:
        idx += 1
        p = write_replay(prop, idx, v)
        violations.append(('; '.join(v.get('problems', [v.get('error', '')]))[:300], p, False))
    if agg['k2_broken'] and not agg['violations']:
        idx += 1
        p = write_replay(prop, idx, dict(obligation='correspondence K2 (extracted Coq model vs implementation) for ' + prop,
                                         disagreements=agg['k2_broken'][:3]))
        violations.append(('correspondence between the Coq model and the implementation no longer holds: '
                           + '; '.join(agg['k2_broken'][0]['diffs'])[:300], p, True))
    if obligations_broken and not agg['violations']:
        idx += 1
        p = write_replay(prop, idx, dict(obligation=obligations_broken, theorem_output=thm.get('output', '')[-1500:]))
        violations.append(('proof obligation no longer checks: ' + obligations_broken[0][:300], p, True))
    if worker_errors:
        idx += 1
        p = write_replay(prop, idx, dict(obligation='harness', errors=worker_errors))
        violations.append(('check machinery failed: ' + worker_errors[0][:300], p, True))

    st = agg['stats']
    nthm = len(thm.get('theorems', []))
    ev = dict(property_id=prop, tier=tier, seed=seed, level=level, wall_s=round(time.time() - t0, 1), violations=len(violations),
              assumptions=['asyncio semantics A1-A9 (DESIGN 3.2) as validated by the correspondence of this run',
                           'node bodies are deterministic functions of (arguments, attempt index)',
                           'networkx returns a valid topological order (checked per recorded order by the model side)'],
              coverage=dict(
                  obligations=max(1, nthm + 1) if level == 'proof' else nthm + 1,
                  discharged=(nthm if thm['ok'] else 0) + (1 if not agg['k2_broken'] and ok_build else 0),
                  checker_cmd='bash /verif/build.sh && coqc -Q . MLPE Properties/%s.v   (run by ./check %s)' % (prop, prop),
                  trusted_base=TRUSTED_BASE,
                  theorems=thm.get('theorems', []),
                  print_assumptions=dict(closed=thm.get('closed', 0), axioms=thm.get('axioms', [])),
                  coqchk=chk if chk is not None else dict(note='run in the thorough tier only'),
                  evaluations=int(st.get('evaluations', 0)),
                  distinct_nontrivial=int(agg['distinct_nontrivial']),
                  rule=agg.get('rule') or 'programs grown by harness/gen.py (profiles and collaborators per harness/props.py), 2-4 random schedules each '
                       '(quiescent-batch and step-granular) chosen online against the real engine on the virtual loop; a case is '
                       'non-trivial if its schedule completes >= 2 gates and the program has >= 3 nodes or a control construct; '
                       'distinct = distinct (program, explicit action list)',
                  samples=agg['samples'][:4] or [dict(note='no generated case (build failed)')],
                  traces_validated_against_impl=int(st.get('k2_compared', 0)),
                  disagreements_checked=int(st.get('k2_disagree', 0)),
                  programs=int(sum(v for k, v in agg['dist'].items() if k.startswith('profile:'))),
                  known_finding_instances=dict(agg['known_hits']),
                  ambiguous_orders_skipped=int(st.get('ambiguous_orders', 0)),
                  plain_program_theorems=dict(
                      note='hypotheses of the kind-F theorems (plain_prog, valid_orders) evaluated by the extracted model on every generated '
                           'case, with the launch / successor orders recorded from the real chart',
                      runs_of_plain_programs=int(st.get('plain_programs_runs', 0)),
                      hypotheses_hold=int(st.get('plain_hypotheses_hold', 0)),
                      hypotheses_of_C06_evaluated=int(st.get('plain_c06_hypotheses_evaluated', 0)),
                      hypotheses_of_C06_hold=int(st.get('plain_c06_hypotheses_hold', 0)),
                      deadlocks_of_the_real_engine_on_them=int(st.get('plain_deadlocks', 0))),
                  input_distribution={k: v for k, v in sorted(agg['dist'].items())},
                  corpus=dict(fixed_defects_replayed=corpus.get('n_fixed', 0), known_findings_replayed=[k['id'] for k in corpus.get('known', [])]),
                  obligations_broken=obligations_broken,
                  catalogue_correspondence=agg.get('exhaustive', {}),
                  generated_programs_all_schedules=agg.get('modelcheck', {}),
                  states=int(agg.get('modelcheck', {}).get('stats', {}).get('states', 0)),
                  transitions=int(agg.get('modelcheck', {}).get('stats', {}).get('transitions', 0)) + int(agg.get('exhaustive', {}).get('stats', {}).get('transitions', 0)),
                  exhaustive=False))
    if level == 'proof' and ev['coverage']['discharged'] < 1:
        ev['coverage']['discharged'] = 0
    os.makedirs(os.path.join(ROOT, 'evidence'), exist_ok=True)
    with open(os.path.join(ROOT, 'evidence', prop + '.json'), 'w') as f:
        json.dump(ev, f, indent=1)
    print('%s tier=%s evaluations=%d k2_compared=%d k2_disagree=%d known_instances=%d theorems=%d wall=%.0fs'
          % (prop, tier, st.get('evaluations', 0), st.get('k2_compared', 0), st.get('k2_disagree', 0),
             st.get('known_finding_instances', 0), nthm, time.time() - t0))
    for msg, path, nofail in violations[:6]:
        print('  ' + msg)
        print('VIOLATION property=%s replay=%s%s' % (prop, path, ' no-failing-input-found' if nofail else ''))
    sys.exit(1 if violations else 0)


if __name__ == '__main__':
    main()
