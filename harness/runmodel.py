"""Model side of the correspondence: serialise (program, recorded oracles, explicit schedule) for the
extracted Coq model (coq/Extract/model_driver), run it, and normalise both observations for comparison."""
import json
import os
import subprocess

import progspec as ps

HERE = os.path.dirname(os.path.abspath(__file__))
DRIVER = os.path.join(HERE, '..', 'coq', 'Extract', 'model_driver')


class Interner:
    def __init__(self):
        self.ids = {'additional_data': 0}
        self.names = ['additional_data']

    def id(self, s):
        s = str(s)
        if s not in self.ids:
            self.ids[s] = len(self.names)
            self.names.append(s)
        return self.ids[s]


def sx(x):
    if isinstance(x, (list, tuple)):
        return '(' + ' '.join(sx(y) for y in x) + ')'
    if x is None:
        return 'none'
    if x is True:
        return '1'
    if x is False:
        return '0'
    return str(x)


def key_sx(k):
    return None if k is None else [k[0]] + list(k[1:])


def val_sx(v, it):
    t = v[0]
    if t == 'i':
        return ['i', v[1]]
    if t == 's':
        return ['s', it.id(v[1])]
    if t == 'none':
        return ['none']
    if t in ('v', 'd'):
        return [t, v[1], [[it.id(p), val_sx(x, it)] for p, x in v[2]]]
    if t == 'r':
        return ['r', val_sx(v[1], it)]
    raise ValueError(v)


def gate_sx(g, it):
    if g[0] in ('b', 't'):
        return [g[0], g[1], g[2]]
    if g[0] == 'e':
        nk = g[2]
        if isinstance(nk, str):
            nk = None if nk == 'None' else json.loads(nk.replace("'", '"'))
        return ['e', g[1], key_sx(nk), g[3], g[4]]
    if g[0] == 'sv':
        nk = g[1]
        if isinstance(nk, str):
            nk = json.loads(nk.replace("'", '"'))
        return ['sv', key_sx(nk), g[2]]
    raise ValueError(g)


def prog_fields(spec, it, orders=(), descs=None, pools=(True, True)):
    ps.spec_defaults(spec)
    nodes = []
    for nd in spec['nodes']:
        params = []
        for pn, m in nd['params']:
            if m[0] == 'in':
                mk = ['in', m[1]]
            elif m[0] == 'sw':
                mk = ['sw', m[1], [[it.id(l), c] for l, c in m[2]]]
            elif m[0] == 'oneof':
                mk = ['oneof', list(m[1])]
            else:
                mk = ['rec', m[1], m[2], m[3]]
            params.append([it.id(pn), mk])
        b = nd['beh']
        if b == 'ok' or b == 'none':
            beh = b
        elif b[0] == 'int':
            beh = ['int', b[1]]
        elif b[0] == 'str':
            beh = ['str', it.id(b[1])]
        elif b[0] == 'receven':
            beh = ['receven', b[1]]
        elif b[0] == 'strep':
            beh = ['strep', [it.id(l) for l in b[1]]]
        else:
            beh = ['recur', b[1]]
        delay = None if nd['delay'] is None else int(round(nd['delay'] * 10))
        nodes.append([['params'] + params, ['mode', nd['mode']],
                      ['attempts', nd['attempts']], ['delay', delay],
                      ['excs', None if nd['exceptions'] is None else list(nd['exceptions'])],
                      ['default', bool(nd['use_default'])], ['beh', beh], ['fails'] + [c for c in nd['fails']]])
    inp = [[it.id(k), ['i', v]] for k, v in sorted(spec['input_kwargs'].items())]
    seen = {}
    ambiguous = False
    for o in orders:
        if o['source'] is None or o['dest'] is None:
            continue
        k = json.dumps([o['source'], o['dest'], o['rec'], o['oneof'], o['nested'], sorted(map(json.dumps, o['nodes']))])
        if k in seen and seen[k]['order'] != o['order']:
            ambiguous = True
        seen[k] = o
    osx = [[key_sx(o['source']), key_sx(o['dest']), o['rec'], o['oneof'], o['nested'],
            [key_sx(n) for n in o['nodes']], [key_sx(n) for n in o['order']]] for o in seen.values()]
    ssx = [[key_sx(json.loads(k)), [key_sx(n) for n in v]] for k, v in (descs or {}).items()]
    fields = [['nodes'] + nodes, ['input'] + inp, ['mgrs', spec['managers']], ['mgr_gated', bool(spec['mgr_gated'])],
              ['mgr_faults'] + [[f[0], key_sx(f[1]), f[2]] for f in spec['mgr_faults']],
              ['store', spec['store']], ['store_gated', bool(spec['store_gated'])],
              ['store_faults'] + [[key_sx(f[0]), f[1]] for f in spec['store_faults']],
              ['orders'] + osx, ['succs'] + ssx, ['pools', bool(pools[0]), bool(pools[1])]]
    return fields, ambiguous


def action_sx(a, it):
    if a[0] in ('s', 'q'):
        return [a[0]]
    if a[0] == 'c':
        return ['c']
    if a[0] == 'g':
        return ['g', gate_sx(a[1], it)]
    raise ValueError(a)


class Model:
    def __init__(self, driver=DRIVER):
        self.driver = driver
        self.p = subprocess.Popen([driver], stdin=subprocess.PIPE, stdout=subprocess.PIPE, text=True, bufsize=1)

    def ask(self, line, timeout=None):
        """timeout (seconds): for requests whose cost is not bounded by the size of the request (exhaustive exploration): when the
        driver does not answer in time it is killed and restarted and dict(timeout=True) is returned (the caller skips the case)."""
        self.p.stdin.write(line + '\n')
        self.p.stdin.flush()
        if timeout is not None:
            import select
            ready, _, _ = select.select([self.p.stdout], [], [], timeout)
            if not ready:
                self.p.kill()
                self.p.wait()
                self.p = subprocess.Popen([self.driver], stdin=subprocess.PIPE, stdout=subprocess.PIPE, text=True, bufsize=1)
                return dict(timeout=True)
        out = self.p.stdout.readline()
        if not out:
            raise RuntimeError('model driver died')
        res = json.loads(out)
        if 'driver_error' in res and os.environ.get('VERIF_DEBUG_REQ'):
            open(os.environ['VERIF_DEBUG_REQ'], 'a').write(line + '\n')
        return res

    def run(self, spec, actions, orders=(), descs=None, pools=(True, True), hyps=0, obs=None):
        """hyps: 1 = also evaluate the hypotheses of the theorems over all plain programs (plain_prog, valid_orders) on this program
        with these orders; 2 = also the depth-sortedness needed by C06 (exponential in the DAG depth: small programs only).
        obs: the implementation's observation of the same actions.  run() reports "the first" error of a SET of failed tasks
        (address order, not reproducible): the model takes that choice as an oracle (p_pick, Engine/Manager.v).  When the model
        sees several failed tasks at that point and the implementation reported another one than the model's default (index 0),
        the model is run again with the implementation's choice, so that everything after it is compared exactly."""
        it = Interner()
        fields, amb = prog_fields(spec, it, orders, descs, pools)
        acts = [action_sx(a, it) for a in actions if a[0] in ('s', 'q', 'c', 'g')]
        tail = [['sched'] + acts] + ([['hyps', str(hyps)]] if hyps else [])
        res = self.ask(sx(['run'] + fields + tail))
        if obs is not None and 'trace' in res:
            alts = next((e[1] for e in res['trace'] if e[0] == 'rundone'), [])
            if len(alts) > 1:
                j = impl_pick(obs, alts)
                if j is not None:
                    if j != 0:
                        res = self.ask(sx(['run'] + fields + [['pick', str(j)]] + tail))
                    res['pick_matched'] = j
        res['ambiguous_orders'] = amb
        res['names'] = it.names
        return res

    def build(self, spec):
        it = Interner()
        fields, _ = prog_fields(spec, it)
        res = self.ask(sx(['build', fields[0]]))
        res['names'] = it.names
        return res

    def close(self):
        try:
            self.p.stdin.close()
            self.p.wait(timeout=5)
        except Exception:  # noqa: BLE001
            self.p.kill()


# ------------------------------------------------------------------------------ normalisation
def norm_val_model(v, names):
    """model value (interned names) -> canonical value with real names, kwargs sorted by name"""
    if not isinstance(v, list) or not v:
        return v
    t = v[0]
    if t == 's':
        return ['s', names[v[1]]]
    if t in ('v', 'd'):
        return [t, v[1], sorted([names[p], norm_val_model(x, names)] for p, x in v[2])]
    if t == 'r':
        return ['r', norm_val_model(v[1], names)]
    return v


def norm_kw_model(kw, names):
    return sorted([names[p], norm_val_model(x, names)] for p, x in kw)


def norm_trace_model(trace, names, kinds=('start', 'default', 'emit', 'save', 'sleep')):
    out = []
    for e in trace:
        if e[0] not in kinds:
            continue
        if e[0] == 'start':
            out.append(['start', e[1], e[2], norm_kw_model(e[3], names)])
        elif e[0] == 'default':
            out.append(['default', e[1], norm_kw_model(e[2], names)])
        elif e[0] == 'emit':
            pl = e[4]
            if isinstance(pl, list) and pl and pl[0] in ('value', 'error'):
                pl = [pl[0], norm_val_model(pl[1], names)]
            out.append(['emit', e[1], e[2], e[3], pl])
        elif e[0] == 'save':
            out.append(['save', e[1], norm_val_model(e[2], names)])
        else:
            out.append(e)
    return out


def norm_outcome_model(o, names):
    if o[0] in ('value',):
        return ['value', norm_val_model(o[1], names)]
    return o


def norm_trace_impl(trace, kinds=('start', 'default', 'emit', 'save', 'sleep')):
    return [e for e in trace if e[0] in kinds]


KNOWN_EE = {'OneOfDoesNotHaveResultError', 'RecurrentSubgraphDoesNotHaveResultError', 'SwitchCaseDoesNotHaveBranchError',
            'ArtifactAlreadyExists', 'RuntimeError', 'CancelledError', 'INTERNAL', 'OUT_OF_FUEL'}


def norm_internal(x):
    """engine-internal lookup errors (KeyError, AttributeError, ...) are one class for the model: INTERNAL"""
    if isinstance(x, list):
        if len(x) == 2 and x[0] == 'ee' and isinstance(x[1], str) and x[1] not in KNOWN_EE:
            return ['ee', 'INTERNAL']
        return [norm_internal(y) for y in x]
    return x


def impl_pick(obs, alts):
    """index in the model's list of failed-task errors of the one the implementation reported (None: cannot be told)"""
    run = obs['runs'][0]
    cands = []
    io = norm_internal(run['outcome'])
    if isinstance(io, list) and len(io) == 2 and io[0] in ('error', 'raised'):
        cands.append(io[1])
    for e in norm_internal(run['trace']):
        if e[0] == 'emit' and e[2] == 'pipeline_complete' and isinstance(e[4], list) and len(e[4]) == 2 and e[4][0] == 'error':
            cands.append(e[4][1])
    for c in cands:
        if c in alts:
            return alts.index(c)
    return None


def compare(obs, res, strict_order=True):
    """K2: implementation observation vs model observation (single run). Returns a list of disagreements."""
    names = res['names']
    diffs = []
    if 'driver_error' in res:
        return ['driver_error:' + res['driver_error']]
    if res.get('fuel'):
        diffs.append('model-out-of-fuel')
    run = obs['runs'][0]
    io = norm_internal(run['outcome'])
    mo = norm_outcome_model(res['outcome'], names)
    # run() picks "the first" error by iterating a set of Task objects (address order): any error of a finished
    # helper task at that moment is an admissible outcome (DESIGN 3.2) -> membership, not equality
    alts_raw = next((e[1] for e in res['trace'] if e[0] == 'rundone'), [])
    alts = [['error', a] if not (a[0] == 'x' and a[1] in ('BX', 'BaseException')) else ['raised', a] for a in alts_raw]
    multi = len(alts) > 1 and io in alts and mo in alts and res.get('pick_matched') is None
    if io != mo and not multi:
        diffs.append('outcome: impl=%s model=%s' % (json.dumps(io)[:200], json.dumps(mo)[:200]))
    ideadlock = obs['verdict'] == 'deadlock'
    if ideadlock != bool(res['deadlock']):
        diffs.append('deadlock: impl=%s model=%s' % (ideadlock, res['deadlock']))
    if res['missing']:
        diffs.append('model: %d completed gates were not outstanding in the model' % res['missing'])
    it = norm_internal(norm_trace_impl(run['trace']))
    mt = norm_trace_model(res['trace'], names)
    if multi:
        # which of several task errors run() picks is not reproducible (DESIGN 3.2); a BaseException among them is raised through
        # PipelineChart.run without an on_pipeline_complete, an Exception is reported with one: the event is left out on both sides
        it = [e for e in it if not (e[0] == 'emit' and e[2] == 'pipeline_complete')]
        mt = [e for e in mt if not (e[0] == 'emit' and e[2] == 'pipeline_complete')]
    if strict_order:
        if it != mt:
            j = next((i for i, (a, b) in enumerate(zip(it, mt)) if a != b), min(len(it), len(mt)))
            diffs.append('trace differs at %d: impl=%s model=%s' % (j, json.dumps(it[j:j + 2])[:300], json.dumps(mt[j:j + 2])[:300]))
    else:
        if sorted(map(json.dumps, it)) != sorted(map(json.dumps, mt)):
            diffs.append('trace multiset differs')
    iq = [sorted(map(json.dumps, q)) for q in obs['quiescent']]
    mq = [sorted(json.dumps(g) for g in q) for q in res['quiescent']]
    if iq != mq:
        j = next((i for i, (a, b) in enumerate(zip(iq, mq)) if a != b), min(len(iq), len(mq)))
        diffs.append('outstanding gates differ at quiescent point %d: impl=%s model=%s' % (j, iq[j:j + 1], mq[j:j + 1]))
    return diffs
