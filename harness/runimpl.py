"""Run the real engine from /repo on the virtual loop under an explicit schedule and return a
canonical observation. No source hooks: recording is done by wrapping the two networkx functions
the manager calls (in the manager module's namespace, at run time) and by ordinary collaborators
(event managers, artifact store, fake pool executors registered through the public API)."""
import asyncio
import contextvars
import copy
import json
import logging
import os
import sys

REPO = os.environ.get('VERIF_REPO', '/repo')
if REPO not in sys.path:
    sys.path.insert(0, REPO)
logging.disable(logging.CRITICAL)

from vloop import VLoop, running  # noqa: E402
import progspec as ps  # noqa: E402

CUR = contextvars.ContextVar('verif_rt')


class Holder:
    """rt_holder protocol expected by progspec.materialize: holder[0] is the current Runtime."""

    def __getitem__(self, _):
        return CUR.get()


class NxProxy:
    def __init__(self, nx, rec):
        self._nx = nx
        self._rec = rec

    def __getattr__(self, name):
        return getattr(self._nx, name)

    def topological_sort(self, dag):
        order = list(self._nx.topological_sort(dag))
        self._rec('topo', dag, order)
        return iter(order)

    def descendants_at_distance(self, g, n, d):
        res = self._nx.descendants_at_distance(g, n, d)
        lst = list(res)
        self._rec('desc', n, lst)
        # return an object iterating in exactly the recorded order
        return lst


class FakeExecutor:
    """Stands for a Thread/ProcessPoolExecutor: never runs anything by itself."""
    _shutdown = False
    _shutdown_thread = False

    def submit(self, fn, *a, **k):
        raise RuntimeError('FakeExecutor.submit must not be reached (VLoop.run_in_executor handles it)')

    def shutdown(self, *a, **k):
        pass


_pools_ready = False


def ensure_pools():
    global _pools_ready
    if _pools_ready:
        return
    from ml_pipeline_engine.parallelism import process_pool_registry, threads_pool_registry

    class FakeManager:
        def shutdown(self):
            pass
    threads_pool_registry.register_pool_executor(FakeExecutor())
    process_pool_registry.register_manager(FakeManager())
    process_pool_registry.register_pool_executor(FakeExecutor())
    _pools_ready = True


def build(spec, tag=''):
    """Materialise and build the chart. Returns dict(chart, classes, to_key, dag)."""
    from ml_pipeline_engine.chart import PipelineChart
    from ml_pipeline_engine.dag_builders.annotation import build_dag
    from ml_pipeline_engine.artifact_store.errors import ArtifactAlreadyExists
    ps.spec_defaults(spec)
    classes = ps.materialize(spec, Holder(), tag)
    if len(classes) == 1:
        from ml_pipeline_engine.dag_builders.annotation.builder import build_dag_single
        dag = build_dag_single(classes[0])
    else:
        dag = build_dag(input_node=classes[0], output_node=classes[-1])
    to_key = ps.node_id_maps(spec, classes, tag)
    # switches declared without a name have generated ids: identify them by their consumer and the parameter they deliver to
    for n, attrs in dag.graph.nodes(data=True):
        if n in to_key or not attrs.get('is_switch'):
            continue
        for succ in dag.graph.successors(n):
            ck = to_key.get(succ)
            pn = dag.graph.edges[n, succ].get('kwarg_name')
            if ck and ck[0] == 'n':
                js = [j for j, (p, m) in enumerate(spec['nodes'][ck[1]]['params']) if p == pn and m[0] == 'sw']
                if js and ['sw', ck[1], js[0]] not in to_key.values():
                    to_key[n] = ['sw', ck[1], js[0]]
                    break

    def key(nid):
        return to_key.get(nid, ['?', str(nid)])

    def make_mgr(idx):
        class Mgr:
            async def _cb(self, ev, node_id, payload):
                rt = CUR.get()
                nk = key(node_id) if node_id is not None else None
                k = rt.count(('e', ev, json.dumps(nk), idx))
                rt.trace.append(['emit', idx, ev, nk, payload])
                if spec['mgr_gated']:
                    await rt.new_gate(('e', ev, json.dumps(nk), idx, k))
                if [ev, nk, k] in spec['mgr_faults'] or [ev, nk, k, idx] in spec['mgr_faults']:
                    raise ps.make_exc('EA', -1, k)

            async def on_pipeline_start(self, ctx):
                await self._cb('pipeline_start', None, None)

            async def on_pipeline_complete(self, ctx, result):
                rt = CUR.get()
                rt.completed_results.append(result)
                await self._cb('pipeline_complete', None,
                               ['value', ps.canon(result.value)] if result.error is None else ['error', ps.canon(result.error)])

            async def on_node_start(self, ctx, node_id):
                await self._cb('node_start', node_id, None)

            async def on_node_complete(self, ctx, node_id, error):
                await self._cb('node_complete', node_id, None if error is None else ps.canon(error))
        return Mgr

    store_cls = None
    if spec['store'] != 'none':
        class Store:
            def __init__(self, ctx, *a, **k):
                self.ctx = ctx

            async def save(self, node_id, data):
                rt = CUR.get()
                nk = key(node_id)
                k = rt.count(('s', json.dumps(nk)))
                rt.trace.append(['save', nk, ps.canon(data)])
                if spec['store_gated']:
                    await rt.new_gate(('s', json.dumps(nk), k))
                if [nk, k] in spec['store_faults']:
                    raise ps.make_exc('EA', -2, k)
                # write-once: the id is taken when save() is CALLED (as a store that writes synchronously does, and as the
                # model's StWriteOnce does: k = number of earlier save calls for this id in this run); the gate only delays
                # the answer. Deciding at completion instead made two overlapping saves of one id fail in release order,
                # which the model does not represent (a thorough-tier false alarm, DESIGN 10).
                if spec['store'] == 'writeonce' and k > 0:
                    raise ArtifactAlreadyExists(str(nk))
                rt.saved[str(nk)] = ps.canon(data)

            async def load(self, node_id):
                return None
        store_cls = Store

    chart = PipelineChart(model_name='m', entrypoint=dag, artifact_store=store_cls,
                          event_managers=[make_mgr(i) for i in range(spec['managers'])])
    return dict(chart=chart, classes=classes, to_key=to_key, dag=dag, key=key, spec=spec)


def snapshot(built, input_kwargs=None):
    """Deep, comparable snapshot of everything a run could leave behind in the chart."""
    dag = built['dag']
    g = dag.graph
    nodes = sorted((str(n), sorted((str(getattr(k, 'value', k)), repr(v)) for k, v in d.items())) for n, d in g.nodes(data=True))
    edges = sorted((str(u), str(v), sorted((str(getattr(k, 'value', k)), repr(x)) for k, x in d.items())) for u, v, d in g.edges(data=True))
    nm = sorted((k, v.__name__) for k, v in dag.node_map.items())
    cls_attrs = sorted((c.__name__, sorted((a, repr(getattr(c, a))) for a in ('name', 'attempts', 'delay', 'exceptions', 'use_default', 'tags', 'node_type')))
                       for c in built['classes'])
    gattrs = sorted((str(k), repr(v)) for k, v in g.graph.items())
    # every other attribute of the DAG object itself (flags, caches): a run must not leave anything there either
    dattrs = sorted((str(k), repr(v)) for k, v in vars(dag).items() if k not in ('graph', 'node_map'))
    return dict(nodes=nodes, edges=edges, node_map=nm, input_node=dag.input_node, output_node=dag.output_node,
                classes=cls_attrs, graph_attrs=gattrs, dag_attrs=dattrs)


class Run:
    """One chart.run on a VLoop (several Run objects may share a loop for overlapping runs)."""

    def __init__(self, built, loop, run_idx=0, input_kwargs=None):
        self.built = built
        self.loop = loop
        self.rt = ps.Runtime()
        self.rt.saved = {}
        self.rt.completed_results = []
        self.rt.run_idx = run_idx
        self.input_kwargs = dict(built['spec']['input_kwargs']) if input_kwargs is None else input_kwargs
        self.input_before = copy.deepcopy(self.input_kwargs)
        self.main = None
        self.done_at = None

    def start(self):
        ctx = contextvars.copy_context()
        ctx.run(CUR.set, self.rt)
        self.main = self.loop.create_task(self.built['chart'].run(input_kwargs=self.input_kwargs),
                                          name='MAIN%d' % self.rt.run_idx, context=ctx)
        return self.main


def _exec_hook(loop):
    def on_executor(executor, fn, *args):
        rt = CUR.get()
        fut = loop.create_future()
        try:
            res = ('ok', fn(*args))
        except BaseException as e:  # noqa: BLE001 - the body's outcome is data here
            res = ('exc', e)
        i, k = rt.last_sync_call
        g = rt.new_gate(('b', i, k), loop)

        def deliver(_):
            if fut.done():
                return
            if res[0] == 'ok':
                fut.set_result(res[1])
            else:
                fut.set_exception(res[1])
        # complete the awaited future in the same handle in which the gate is completed
        rt.exec_links = getattr(rt, 'exec_links', {})
        rt.exec_links[('b', i, k)] = (deliver, fut)
        return fut
    return on_executor


def gate_json(g):
    """internal gate id tuple -> canonical JSON gate id"""
    if g[0] == 'b':
        return ['b', g[1], g[2]]
    if g[0] == 'e':
        return ['e', g[1], json.loads(g[2]), g[3], g[4]]
    if g[0] == 's':
        return ['sv', json.loads(g[1]), g[2]]
    raise ValueError(g)


def pending_gates(runs, loop, multi=False):
    """Sorted list of (canonical gid, completer) over all runs + live timers."""
    out = []
    for r in runs:
        links = getattr(r.rt, 'exec_links', {})
        # completed gates are of no further interest: drop them (a node that retries for ever would otherwise make every call linear
        # in the number of attempts so far)
        for g in [g for g, f in r.rt.gates.items() if f.done()]:
            del r.rt.gates[g]
        for g, f in r.rt.gates.items():
            if f.done():
                continue
            if g in links and links[g][1].done():
                continue        # the engine's await on the executor future was cancelled
            gid = gate_json(g)
            out.append(((['R', r.rt.run_idx] + gid) if multi else gid, ('gate', r, g)))
    for t in loop.live_timers():
        gid = t.get('gid') or ['t', -1, t['seq']]
        out.append(((['R', t.get('run', 0)] + gid) if multi else gid, ('timer', t)))
    out.sort(key=lambda x: json.dumps(x[0]))
    return out


def complete(loop, what):
    if what[0] == 'timer':
        # run the timer callback now: it resolves sleep()'s future, whose wake-up is one handle,
        # exactly like the completion of any other gate
        rec = what[1]
        rec['fired'] = True
        loop.now = max(loop.now, rec['when'])
        if not rec['handle']._cancelled:
            rec['handle']._run()
        return
    _, r, g = what
    links = getattr(r.rt, 'exec_links', {})
    f = r.rt.gates[g]
    f.set_result(None)
    if g in links:
        links[g][0](None)


def outcome_of(task):
    if not task.done():
        return ['pending']
    if task.cancelled():
        return ['cancelled']
    e = task.exception()
    if e is not None:
        return ['raised', ps.canon(e)]
    r = task.result()
    if r.error is None:
        return ['value', ps.canon(r.value)]
    return ['error', ps.canon(r.error)]


class Replay:
    """Explicit action list; when exhausted: run to quiescence, then complete the first pending gate."""

    def __init__(self, actions):
        self.actions = list(actions)
        self.pos = 0

    def next(self, ready, pending):
        if self.pos < len(self.actions):
            a = self.actions[self.pos]
            self.pos += 1
            if a[0] == 'g' and isinstance(a[1], int):      # legacy: index into the sorted pending list
                if not pending:
                    return ['nop']
                return ['g', pending[a[1] % len(pending)]]
            return a
        if ready:
            return ['q']
        if pending:
            return ['g', pending[0]]
        return None


class RandomBatch:
    """Quiescent-batch schedules: run to quiescence, complete one (sometimes several) pending gates, repeat."""

    def __init__(self, rng, p_multi=0.25, cancel_at=None, cancel_run=0):
        self.rng = rng
        self.p_multi = p_multi
        self.cancel_at = cancel_at
        self.cancel_run = cancel_run
        self.n = 0
        self.burst = False

    def next(self, ready, pending):
        self.n += 1
        if self.cancel_at is not None and self.n == self.cancel_at:
            return ['c', self.cancel_run]
        if ready and not (self.burst and pending and self.rng.random() < self.p_multi):
            self.burst = False
            return ['q']
        if pending:
            self.burst = True
            return ['g', self.rng.choice(pending)]
        if ready:
            return ['q']
        return None


class RandomStep:
    """Step-granular schedules: arbitrary interleaving of single loop iterations and gate completions."""

    def __init__(self, rng, p_gate=0.35, cancel_at=None, cancel_run=0):
        self.rng = rng
        self.p_gate = p_gate
        self.cancel_at = cancel_at
        self.cancel_run = cancel_run
        self.n = 0

    def next(self, ready, pending):
        self.n += 1
        if self.cancel_at is not None and self.n == self.cancel_at:
            return ['c', self.cancel_run]
        if ready and pending:
            return ['g', self.rng.choice(pending)] if self.rng.random() < self.p_gate else ['s']
        if ready:
            return ['s']
        if pending:
            return ['g', self.rng.choice(pending)]
        return None


class Exact:
    """Exactly the given actions, then stop (no automatic continuation): the state after them is what is observed."""

    def __init__(self, actions):
        self.actions = list(actions)
        self.pos = 0

    def next(self, ready, pending):
        if self.pos < len(self.actions):
            a = self.actions[self.pos]
            self.pos += 1
            return a
        return None


def run_schedule(spec, sched, n_runs=1, overlap=False, inputs=None, tag='', step_limit=4000, built=None,
                 record_orders=True, drain=True):
    """Run the real engine under a schedule. sched: a policy object (Replay / RandomBatch / RandomStep) or a plain
    action list (wrapped in Replay). Actions: ['q'] run to quiescence, ['s'] one loop iteration, ['g', gid] complete
    the gate gid, ['c', run] cancel the task of run #run. The explicit actions actually performed are returned in
    obs['actions'] (a complete replay). Sequential histories (overlap=False, n_runs>1): run k+1 starts when run k is
    done and the loop is drained."""
    import ml_pipeline_engine.dag.manager as mgr_mod
    ensure_pools()
    built = built or build(spec, tag)
    key = built['key']
    policy = Replay(sched) if isinstance(sched, list) else sched
    multi = n_runs > 1
    orders = []
    descs = {}

    def foreign(ks):
        # a call made by a task of an EARLIER run that was abandoned in a livelock and is only now being finalised: its node ids are
        # not nodes of this chart
        return any(isinstance(k, list) and k and k[0] == '?' for k in ks)

    def rec(kind, a, b):
        if kind == 'topo':
            dag = a
            if foreign([key(n) for n in dag.nodes]):
                return
            orders.append(dict(source=key(dag.source) if getattr(dag, 'source', None) is not None else None,
                               dest=key(dag.dest) if getattr(dag, 'dest', None) is not None else None,
                               rec=bool(dag.is_recurrent), oneof=bool(dag.is_oneof), nested=bool(dag.is_nested_oneof),
                               nodes=[key(n) for n in dag.nodes], order=[key(n) for n in b]))
        else:
            if foreign([key(a)] + [key(n) for n in b]):
                return
            descs[json.dumps(key(a))] = [key(n) for n in b]

    real_nx = mgr_mod.nx
    if isinstance(real_nx, NxProxy):
        real_nx = real_nx._nx
    mgr_mod.nx = NxProxy(real_nx, rec) if record_orders else real_nx
    loop = VLoop()
    loop.on_executor = _exec_hook(loop)
    timer_counts = {}

    def on_timer(trec):
        owner = trec['owner']
        k = key(owner)
        if k[0] == 'n':
            rt = CUR.get(None)
            ridx = rt.run_idx if rt is not None else 0
            c = timer_counts.get((ridx, k[1]), 0)
            timer_counts[(ridx, k[1])] = c + 1
            trec['gid'] = ['t', k[1], c]
            trec['run'] = ridx
            if rt is not None:
                rt.trace.append(['sleep', k[1], int(round((trec['when'] - loop.now) * 10))])
    loop.on_timer = on_timer
    snaps = [snapshot(built)]
    runs = []
    obs = dict(quiescent=[], steps=0, actions=[], missing=0)
    try:
        with running(loop):
            def start_run(idx):
                ik = None if inputs is None else inputs[idx]
                r = Run(built, loop, idx, ik)
                r.start()
                runs.append(r)
                return r

            start_run(0)
            if overlap:
                for i in range(1, n_runs):
                    start_run(i)
            verdict = None
            total = 0
            while True:
                for r in runs:
                    if r.main.done() and r.done_at is None:
                        r.done_at = len(r.rt.trace)
                        r.steps_at_done = loop.steps
                if all(r.main.done() for r in runs):
                    if not overlap and len(runs) < n_runs:
                        loop.run_ready(step_limit)
                        snaps.append(snapshot(built))
                        obs['actions'].append(['next_run'])
                        start_run(len(runs))
                        continue
                    verdict = 'finished'
                    break
                total += 1
                if total > step_limit:
                    verdict = 'steplimit'
                    if os.environ.get('VERIF_DEBUG_LONG'):
                        json.dump(dict(spec=spec, actions=obs['actions'][:200]), open(os.environ['VERIF_DEBUG_LONG'], 'w'))
                    break
                pend = pending_gates(runs, loop, multi)
                act = policy.next(bool(loop.ready), [g for g, _ in pend])
                if act is None:
                    # the policy stops: a deadlock only if nothing can move and nothing is outstanding
                    verdict = 'deadlock' if (not loop.ready and not pend) else 'stopped'
                    break
                if act[0] == 's':
                    if loop.ready:
                        loop.step()
                        obs['actions'].append(['s'])
                elif act[0] == 'q':
                    try:
                        loop.run_ready(step_limit)
                    except RuntimeError as e:
                        if 'step limit' not in str(e):
                            raise
                        # the loop never becomes idle although no completion is delivered: a livelock of the engine inside one
                        # quiescence (seen only on the known-finding shapes of D12 with all-inline bodies): same verdict as above
                        verdict = 'steplimit'
                        obs['actions'].append(['q'])
                        break
                    obs['actions'].append(['q'])
                elif act[0] == 'g':
                    hit = [c for g, c in pend if g == act[1]]
                    if hit:
                        if not loop.ready:
                            obs['quiescent'].append([g for g, _ in pend])
                        complete(loop, hit[0])
                        obs['actions'].append(['g', act[1]])
                    else:
                        obs['missing'] += 1
                elif act[0] == 'c':
                    r = runs[act[1] % len(runs)]
                    if not r.main.done():
                        r.main.cancel()
                        r.cancel_requested = True
                        obs['actions'].append(['c', act[1] % len(runs)])
            # drain
            drained = 0
            while drain and verdict != 'steplimit' and loop.ready and drained < 100000:
                loop.step()
                drained += 1
            snaps.append(snapshot(built))
            left = sorted(t.get_name() for t in asyncio.all_tasks(loop) if not t.done())
            obs.update(verdict=verdict, drained=drained, leftovers=left, steps=loop.steps,
                       loop_exceptions=[str(c.get('message')) + ':' + repr(c.get('exception')) for c in loop.exc])
            obs['runs'] = []
            for r in runs:
                post = r.rt.trace[r.done_at:] if r.done_at is not None else []
                obs['runs'].append(dict(outcome=outcome_of(r.main), trace=r.rt.trace, post_events=post,
                                        input_before=ps.canon(r.input_before), input_after=ps.canon(r.input_kwargs),
                                        cancel_requested=getattr(r, 'cancel_requested', False),
                                        pending_gates_left=[gate_json(g) for g, f in r.rt.gates.items() if not f.done()],
                                        result_identity=(bool(r.rt.completed_results) and r.main.done() and not r.main.cancelled()
                                                         and r.main.exception() is None
                                                         and all(x is r.main.result() for x in r.rt.completed_results)),
                                        n_complete_results=len(r.rt.completed_results),
                                        reused_objects=sorted(set(getattr(r.rt, 'reused', [])))))
            obs['snapshots_equal'] = all(s == snaps[0] for s in snaps)
            if not obs['snapshots_equal']:
                obs['snapshot_diff'] = [(a, b) for s in snaps[1:] for a, b in zip(_flat(snaps[0]), _flat(s)) if a != b][:6]
            obs['orders'] = orders
            obs['descendants'] = descs
            if not drain:
                # a stopped run leaves tasks behind: end them quietly (after the observation has been taken)
                for r in runs:
                    r.rt.trace = list(r.rt.trace)
                for t in asyncio.all_tasks(loop):
                    t.cancel()
                k = 0
                while loop.ready and k < 100000:
                    loop.step()
                    k += 1
    finally:
        mgr_mod.nx = real_nx
    return obs


def _flat(s):
    return [('node', x) for x in s['nodes']] + [('edge', x) for x in s['edges']] + [('map', x) for x in s['node_map']] + \
        [('cls', x) for x in s['classes']] + [('graph_attr', x) for x in s['graph_attrs']] + [('dag_attr', x) for x in s.get('dag_attrs', [])]
