"""Run the real engine from /repo on the virtual loop under an explicit schedule and return a
canonical observation. No source hooks: recording is done by wrapping the two networkx functions
the manager calls (in the manager module's namespace, at run time) and by ordinary collaborators
(event managers, artifact store, fake pool executors registered through the public API)."""
import asyncio
import contextvars
import copy
import logging
import os
import sys

REPO = os.environ.get('VERIF_REPO', '/repo')
if REPO not in sys.path:
    sys.path.insert(0, REPO)
logging.disable(logging.CRITICAL)

from vloop import VLoop, running  # noqa: E402
import progspec as ps  # noqa: E402

CUR = contextvars.ContextVar('verif_rt')


class Holder:
    """rt_holder protocol expected by progspec.materialize: holder[0] is the current Runtime."""

    def __getitem__(self, _):
        return CUR.get()


class NxProxy:
    def __init__(self, nx, rec):
        self._nx = nx
        self._rec = rec

    def __getattr__(self, name):
        return getattr(self._nx, name)

    def topological_sort(self, dag):
        order = list(self._nx.topological_sort(dag))
        self._rec('topo', dag, order)
        return iter(order)

    def descendants_at_distance(self, g, n, d):
        res = self._nx.descendants_at_distance(g, n, d)
        lst = list(res)
        self._rec('desc', n, lst)
        # return an object iterating in exactly the recorded order
        return lst


class FakeExecutor:
    """Stands for a Thread/ProcessPoolExecutor: never runs anything by itself."""
    _shutdown = False
    _shutdown_thread = False

    def submit(self, fn, *a, **k):
        raise RuntimeError('FakeExecutor.submit must not be reached (VLoop.run_in_executor handles it)')

    def shutdown(self, *a, **k):
        pass


_pools_ready = False


def ensure_pools():
    global _pools_ready
    if _pools_ready:
        return
    from ml_pipeline_engine.parallelism import process_pool_registry, threads_pool_registry

    class FakeManager:
        def shutdown(self):
            pass
    threads_pool_registry.register_pool_executor(FakeExecutor())
    process_pool_registry.register_manager(FakeManager())
    process_pool_registry.register_pool_executor(FakeExecutor())
    _pools_ready = True


def build(spec, tag=''):
    """Materialise and build the chart. Returns dict(chart, classes, to_key, dag)."""
    from ml_pipeline_engine.chart import PipelineChart
    from ml_pipeline_engine.dag_builders.annotation import build_dag
    from ml_pipeline_engine.artifact_store.errors import ArtifactAlreadyExists
    ps.spec_defaults(spec)
    classes = ps.materialize(spec, Holder(), tag)
    if len(classes) == 1:
        from ml_pipeline_engine.dag_builders.annotation.builder import build_dag_single
        dag = build_dag_single(classes[0])
    else:
        dag = build_dag(input_node=classes[0], output_node=classes[-1])
    to_key = ps.node_id_maps(spec, classes, tag)

    def key(nid):
        return to_key.get(nid, ['?', str(nid)])

    def make_mgr(idx):
        class Mgr:
            async def _cb(self, ev, node_id, payload):
                rt = CUR.get()
                nk = key(node_id) if node_id is not None else None
                k = rt.count(('e', ev, str(nk), idx))
                rt.trace.append(['emit', idx, ev, nk, payload])
                if spec['mgr_gated']:
                    await rt.new_gate(('e', ev, str(nk), idx, k))
                if [ev, nk, k] in spec['mgr_faults'] or [ev, nk, k, idx] in spec['mgr_faults']:
                    raise ps.make_exc('EA', -1, k)

            async def on_pipeline_start(self, ctx):
                await self._cb('pipeline_start', None, None)

            async def on_pipeline_complete(self, ctx, result):
                rt = CUR.get()
                rt.completed_results.append(result)
                await self._cb('pipeline_complete', None,
                               ['value', ps.canon(result.value)] if result.error is None else ['error', ps.canon(result.error)])

            async def on_node_start(self, ctx, node_id):
                await self._cb('node_start', node_id, None)

            async def on_node_complete(self, ctx, node_id, error):
                await self._cb('node_complete', node_id, None if error is None else ps.canon(error))
        return Mgr

    store_cls = None
    if spec['store'] != 'none':
        class Store:
            def __init__(self, ctx, *a, **k):
                self.ctx = ctx

            async def save(self, node_id, data):
                rt = CUR.get()
                nk = key(node_id)
                k = rt.count(('s', str(nk)))
                rt.trace.append(['save', nk, ps.canon(data)])
                if spec['store_gated']:
                    await rt.new_gate(('s', str(nk), k))
                if [nk, k] in spec['store_faults']:
                    raise ps.make_exc('EA', -2, k)
                if spec['store'] == 'writeonce':
                    if str(nk) in rt.saved:
                        raise ArtifactAlreadyExists(str(nk))
                rt.saved[str(nk)] = ps.canon(data)

            async def load(self, node_id):
                return None
        store_cls = Store

    chart = PipelineChart(model_name='m', entrypoint=dag, artifact_store=store_cls,
                          event_managers=[make_mgr(i) for i in range(spec['managers'])])
    return dict(chart=chart, classes=classes, to_key=to_key, dag=dag, key=key, spec=spec)


def snapshot(built, input_kwargs=None):
    """Deep, comparable snapshot of everything a run could leave behind in the chart."""
    dag = built['dag']
    g = dag.graph
    nodes = sorted((str(n), sorted((str(getattr(k, 'value', k)), repr(v)) for k, v in d.items())) for n, d in g.nodes(data=True))
    edges = sorted((str(u), str(v), sorted((str(getattr(k, 'value', k)), repr(x)) for k, x in d.items())) for u, v, d in g.edges(data=True))
    nm = sorted((k, v.__name__) for k, v in dag.node_map.items())
    cls_attrs = sorted((c.__name__, sorted((a, repr(getattr(c, a))) for a in ('name', 'attempts', 'delay', 'exceptions', 'use_default', 'tags', 'node_type')))
                       for c in built['classes'])
    return dict(nodes=nodes, edges=edges, node_map=nm, input_node=dag.input_node, output_node=dag.output_node,
                classes=cls_attrs)


class Run:
    """One chart.run on a VLoop (several Run objects may share a loop for overlapping runs)."""

    def __init__(self, built, loop, run_idx=0, input_kwargs=None):
        self.built = built
        self.loop = loop
        self.rt = ps.Runtime()
        self.rt.saved = {}
        self.rt.completed_results = []
        self.rt.run_idx = run_idx
        self.input_kwargs = dict(built['spec']['input_kwargs']) if input_kwargs is None else input_kwargs
        self.input_before = copy.deepcopy(self.input_kwargs)
        self.main = None
        self.done_at = None

    def start(self):
        ctx = contextvars.copy_context()
        ctx.run(CUR.set, self.rt)
        self.main = self.loop.create_task(self.built['chart'].run(input_kwargs=self.input_kwargs),
                                          name='MAIN%d' % self.rt.run_idx, context=ctx)
        return self.main


def _exec_hook(loop):
    def on_executor(executor, fn, *args):
        rt = CUR.get()
        fut = loop.create_future()
        try:
            res = ('ok', fn(*args))
        except BaseException as e:  # noqa: BLE001 - the body's outcome is data here
            res = ('exc', e)
        i, k = rt.last_sync_call
        g = rt.new_gate(('b', i, k), loop)

        def deliver(_):
            if fut.done():
                return
            if res[0] == 'ok':
                fut.set_result(res[1])
            else:
                fut.set_exception(res[1])
        # complete the awaited future in the same handle in which the gate is completed
        rt.exec_links = getattr(rt, 'exec_links', {})
        rt.exec_links[('b', i, k)] = deliver
        return fut
    return on_executor


def pending_gates(runs, loop):
    """Sorted list of (gid, completer) over all runs + eligible timers."""
    out = []
    for r in runs:
        for g in r.rt.pending():
            out.append((('R%d' % r.rt.run_idx,) + tuple(str(x) for x in g), ('gate', r, g)))
    live = loop.live_timers()
    if live:
        w = min(t['when'] for t in live)
        for t in live:
            if t['when'] == w:
                out.append((('T', str(t['owner']), '%06d' % t['seq']), ('timer', t)))
    out.sort(key=lambda x: x[0])
    return out


def complete(loop, what):
    if what[0] == 'timer':
        loop.fire_timer(what[1])
        return
    _, r, g = what
    links = getattr(r.rt, 'exec_links', {})
    f = r.rt.gates[g]
    if g in links:
        # executor gate: resolve the future the engine awaits directly (same handle structure as async gates)
        f.set_result(None)
        links[g](None)
    else:
        f.set_result(None)


def outcome_of(task):
    if not task.done():
        return ['pending']
    if task.cancelled():
        return ['cancelled']
    e = task.exception()
    if e is not None:
        return ['raised', ps.canon(e)]
    r = task.result()
    if r.error is None:
        return ['value', ps.canon(r.value)]
    return ['error', ps.canon(r.error)]


def run_schedule(spec, sched, n_runs=1, overlap=False, inputs=None, tag='', step_limit=200000, built=None,
                 record_orders=True):
    """Execute the schedule. sched: list of actions ['q'] | ['s'] | ['g', idx] | ['c', run] | ['start', run].
    When the schedule is exhausted the default policy (run to quiescence, complete pending gate 0) continues
    until every started run is done or nothing can move.
    Sequential histories (overlap=False, n_runs>1): run k+1 starts when run k is done and the loop drained."""
    import ml_pipeline_engine.dag.manager as mgr_mod
    ensure_pools()
    built = built or build(spec, tag)
    key = built['key']
    orders = []
    descs = {}

    def rec(kind, a, b):
        if kind == 'topo':
            dag = a
            orders.append(dict(source=key(dag.source) if getattr(dag, 'source', None) is not None else None,
                               dest=key(dag.dest) if getattr(dag, 'dest', None) is not None else None,
                               rec=bool(dag.is_recurrent), oneof=bool(dag.is_oneof), nested=bool(dag.is_nested_oneof),
                               order=[key(n) for n in b]))
        else:
            descs[str(key(a))] = [key(n) for n in b]

    real_nx = mgr_mod.nx
    if isinstance(real_nx, NxProxy):
        real_nx = real_nx._nx
    mgr_mod.nx = NxProxy(real_nx, rec) if record_orders else real_nx
    loop = VLoop()
    loop.on_executor = _exec_hook(loop)
    snaps = [snapshot(built)]
    runs = []
    obs = dict(quiescent=[], steps=0)
    try:
        with running(loop):
            def start_run(idx):
                ik = None if inputs is None else inputs[idx]
                r = Run(built, loop, idx, ik)
                r.start()
                runs.append(r)
                return r

            start_run(0)
            if overlap:
                for i in range(1, n_runs):
                    start_run(i)
            pos = 0
            verdict = None
            total = 0
            while True:
                for r in runs:
                    if r.main.done() and r.done_at is None:
                        r.done_at = len(r.rt.trace)
                        r.steps_at_done = loop.steps
                if all(r.main.done() for r in runs):
                    if not overlap and len(runs) < n_runs:
                        loop.run_ready(step_limit)
                        snaps.append(snapshot(built))
                        start_run(len(runs))
                        continue
                    verdict = 'finished'
                    break
                total += 1
                if total > step_limit:
                    verdict = 'steplimit'
                    break
                if pos < len(sched):
                    act = sched[pos]
                    pos += 1
                else:
                    act = ['auto']
                if act[0] == 's':
                    if loop.ready:
                        loop.step()
                elif act[0] == 'q':
                    loop.run_ready(step_limit)
                elif act[0] == 'g':
                    pend = pending_gates(runs, loop)
                    if pend:
                        if not loop.ready:
                            obs['quiescent'].append([list(g) for g, _ in pend])
                        complete(loop, pend[act[1] % len(pend)][1])
                elif act[0] == 'c':
                    r = runs[act[1] % len(runs)]
                    if not r.main.done():
                        r.main.cancel()
                        r.cancel_requested = True
                elif act[0] == 'auto':
                    if loop.ready:
                        loop.run_ready(step_limit)
                        continue
                    pend = pending_gates(runs, loop)
                    if not pend:
                        verdict = 'deadlock'
                        break
                    obs['quiescent'].append([list(g) for g, _ in pend])
                    complete(loop, pend[0][1])
            # drain
            drained = 0
            while loop.ready and drained < 100000:
                loop.step()
                drained += 1
            snaps.append(snapshot(built))
            left = sorted(t.get_name() for t in asyncio.all_tasks(loop) if not t.done())
            obs.update(verdict=verdict, drained=drained, leftovers=left, steps=loop.steps,
                       loop_exceptions=[str(c.get('message')) + ':' + repr(c.get('exception')) for c in loop.exc])
            obs['runs'] = []
            for r in runs:
                post = r.rt.trace[r.done_at:] if r.done_at is not None else []
                obs['runs'].append(dict(outcome=outcome_of(r.main), trace=r.rt.trace, post_events=post,
                                        input_before=ps.canon(r.input_before), input_after=ps.canon(r.input_kwargs),
                                        cancel_requested=getattr(r, 'cancel_requested', False),
                                        pending_gates_left=[list(map(str, g)) for g in r.rt.pending()],
                                        result_identity=(bool(r.rt.completed_results) and r.main.done() and not r.main.cancelled()
                                                         and r.main.exception() is None
                                                         and all(x is r.main.result() for x in r.rt.completed_results)),
                                        n_complete_results=len(r.rt.completed_results)))
            obs['snapshots_equal'] = all(s == snaps[0] for s in snaps)
            if not obs['snapshots_equal']:
                obs['snapshot_diff'] = [(a, b) for s in snaps[1:] for a, b in zip(_flat(snaps[0]), _flat(s)) if a != b][:6]
            obs['orders'] = orders
            obs['descendants'] = descs
    finally:
        mgr_mod.nx = real_nx
    return obs


def _flat(s):
    return [('node', x) for x in s['nodes']] + [('edge', x) for x in s['edges']] + [('map', x) for x in s['node_map']] + \
        [('cls', x) for x in s['classes']]
