"""Worker: explores generated cases for one engine-level property and prints one JSON result.
usage: worker.py <property> <seed> <n_programs> <tier>   (PYTHONHASHSEED is set by the caller)"""
import collections
import json
import os
import random
import sys
import time

HERE = os.path.dirname(os.path.abspath(__file__))
sys.path.insert(0, HERE)
import gen as G  # noqa: E402
import oracles as O  # noqa: E402
import props  # noqa: E402
import runimpl as R  # noqa: E402
import runmodel as M  # noqa: E402


def choose_profile(rng, profiles):
    tot = sum(w for _, w in profiles)
    x = rng.random() * tot
    for p, w in profiles:
        x -= w
        if x <= 0:
            return p
    return profiles[-1][0]


def make_case(rng, cfg):
    prof = choose_profile(rng, cfg['profiles'])
    if rng.random() < cfg.get('templates', 0.12):
        name = rng.choice(sorted(G.TEMPLATES))
        spec = G.template_program(rng, name)
        spec['managers'] = rng.choice(cfg.get('managers', [0]))
        spec['store'] = rng.choice(cfg.get('stores', ['none']))
        if cfg.get('gated_collab') and rng.random() < cfg['gated_collab']:
            spec['mgr_gated'] = spec['managers'] > 0 and rng.random() < 0.7
            spec['store_gated'] = spec['store'] != 'none' and rng.random() < 0.7
        R.ps.spec_defaults(spec)
        return 'template:' + name, spec
    kw = dict(G.PROFILES[prof])
    if cfg.get('more_fail'):
        kw['p_fail'] = min(0.5, kw.get('p_fail', 0.15) * 1.8)
    if cfg.get('retry') and rng.random() < 0.6:
        kw['retry'] = cfg['retry']
    if cfg.get('modes') and rng.random() < 0.4:
        kw['modes'] = ['gated', 'gated', 'immediate', 'inline', 'thread', 'process']
    spec = G.gen_program(rng, **kw)
    spec['managers'] = rng.choice(cfg.get('managers', [0]))
    spec['store'] = rng.choice(cfg.get('stores', ['none']))
    if cfg.get('gated_collab') and rng.random() < cfg['gated_collab']:
        spec['mgr_gated'] = spec['managers'] > 0 and rng.random() < 0.7
        spec['store_gated'] = spec['store'] != 'none' and rng.random() < 0.7
    if cfg.get('faults') and rng.random() < cfg['faults']:
        n = len(spec['nodes'])
        if spec['managers'] and rng.random() < 0.6:
            ev = rng.choice(['node_start', 'node_complete', 'node_complete', 'pipeline_complete'])
            nk = None if ev.startswith('pipeline') else ['n', rng.randrange(n)]
            spec['mgr_faults'] = [[ev, nk, 0]]
        if spec['store'] != 'none' and rng.random() < 0.6:
            spec['store_faults'] = [[['n', rng.randrange(n)], 0]]
    R.ps.spec_defaults(spec)
    return prof, spec


def frag_of(fl):
    for f in ('Plain', 'Sw', 'OneOfX', 'RecWN'):
        if fl[f]:
            return f
    return 'other'


def main():
    prop, seed, n, tier = sys.argv[1], int(sys.argv[2]), int(sys.argv[3]), sys.argv[4]
    cfg = props.ENGINE[prop]
    findings = [f for f in json.load(open(os.path.join(HERE, '..', 'known_findings.json')))['findings'] if prop in f['properties']]
    rng = random.Random(seed)
    model = M.Model()
    st = collections.Counter()
    dist = collections.Counter()
    violations = []
    k2_broken = []
    known_hits = collections.Counter()
    samples = []
    distinct = set()
    t0 = time.time()
    for c in range(n):
        prof, spec = make_case(rng, cfg)
        ref = O.reference(model, spec)
        fl = ref['flags']
        frag = frag_of(fl)
        dist['profile:' + prof] += 1
        dist['fragment:' + frag] += 1
        dist['nodes:%d' % len(spec['nodes'])] += 1
        dist['managers:%d' % spec['managers']] += 1
        dist['store:' + spec['store']] += 1
        nscheds = 2 if tier == 'quick' else 4
        for s in range(nscheds):
            cancel_at = None
            if cfg.get('cancel') and rng.random() < cfg['cancel']:
                cancel_at = rng.randint(1, 40)
            if s % 2 == 0:
                pol = R.RandomBatch(rng, cancel_at=cancel_at)
                kind = 'batch'
            else:
                pol = R.RandomStep(rng, cancel_at=cancel_at)
                kind = 'step'
            tag = '_%d_%d_%d' % (seed, c, s)
            try:
                obs = R.run_schedule(json.loads(json.dumps(spec)), pol, tag=tag)
            except Exception as e:  # noqa: BLE001 - a harness failure must not pass silently
                violations.append(dict(kind='harness-error', error='%s: %s' % (type(e).__name__, e), spec=spec, actions=[], tag=tag))
                continue
            st['evaluations'] += 1
            run = obs['runs'][0]
            dist['sched:' + kind] += 1
            dist['outcome:' + run['outcome'][0]] += 1
            dist['verdict:' + obs['verdict']] += 1
            gates = sum(1 for a in obs['actions'] if a[0] == 'g')
            nontrivial = gates >= 2 and (frag != 'Plain' or len(spec['nodes']) >= 3)
            key = json.dumps([spec['nodes'], obs['actions']], sort_keys=True)
            if nontrivial and key not in distinct:
                distinct.add(key)
            # ---- K2: model vs implementation
            # VERIF_NO_ORDERS=1: do not feed the recorded topological orders: the model then uses its own default order oracle
            # (an experiment switch to measure how faithfully that oracle reproduces networkx; never set by ./check)
            res = None if obs['verdict'] == 'steplimit' else \
                model.run(spec, obs['actions'], () if os.environ.get('VERIF_NO_ORDERS') else obs['orders'], obs['descendants'],
                          hyps=(1 if (s == 0 and frag == 'Plain' and len(spec['nodes']) <= 12) else 0), obs=obs)
            d = []
            if obs['verdict'] == 'steplimit':
                # a livelock of the real engine (seen only on shapes of known findings: unbounded re-iteration of a recurrent subgraph with a
                # switch inside): thousands of actions; the oracle reports it (C02: step limit exceeded), the model is not run on it
                st['steplimit_runs_not_compared'] += 1
                res = dict(ambiguous_orders=True)
            # hypotheses of the kind-F theorems, evaluated by the extracted model on the orders recorded from the real chart
            if res.get('plain') and not res.get('ambiguous_orders'):
                st['plain_programs_runs'] += 1
                if res.get('orders_valid'):
                    st['plain_hypotheses_hold'] += 1
                    if obs['verdict'] == 'deadlock':
                        st['plain_deadlocks'] += 1     # would contradict C02_on_plain_programs_no_deadlock (reported by the C02 oracle too)
                elif len(k2_broken) < 5:
                    k2_broken.append(dict(diffs=['the launch / successor orders recorded from networkx do not satisfy valid_orders: '
                                                 'the hypotheses of the theorems over all plain programs fail on this program'],
                                          spec=spec, actions=obs['actions'], tag=tag, hashseed=os.environ.get('PYTHONHASHSEED')))
            if res.get('ambiguous_orders'):
                st['ambiguous_orders'] += 1
            else:
                d = M.compare(obs, res)
                st['k2_compared'] += 1
                if d:
                    st['k2_disagree'] += 1
                    if len(k2_broken) < 5:
                        k2_broken.append(dict(diffs=d[:4], spec=spec, actions=obs['actions'], tag=tag,
                                              hashseed=os.environ.get('PYTHONHASHSEED')))
            # ---- K1: the property's oracle on the implementation's observation
            P = O.check_run(spec, obs, ref)
            if prop == 'C14':
                if not spec['mgr_faults']:
                    P['C14'] = O.check_events(spec, obs) + O.check_values_after_complete(spec, obs)
            if prop == 'C19':
                P['C19'] = O.check_saves(spec, obs, ref) if not spec['store_faults'] else []
            if prop == 'C02' and (spec['mgr_faults'] or spec['store_faults']):
                pass    # only termination is claimed under collaborator faults; check_run's C02 part is independent of them
            probs = P.get(prop, [])
            if prop in ('C01', 'C03', 'C04', 'C05', 'C09', 'C10', 'C11', 'C12', 'C19', 'C14') and (spec['mgr_faults'] or spec['store_faults']):
                probs = []   # value-level oracles assume collaborators that do not raise
            if probs:
                # a recorded finding is reproduced by the model (which is faithful to the defective code): a failure on a case
                # where the implementation ALSO departs from the model is not an instance of it, whatever the program shape
                hitf = O.known_instance(findings, fl, probs) if not d else None
                hit = [hitf] if hitf else []
                if hit:
                    known_hits[hit[0]['id']] += 1
                    st['known_finding_instances'] += 1
                else:
                    st['violations'] += 1
                    if len(violations) < 5:
                        violations.append(dict(kind='property', problems=probs[:4], spec=spec, actions=obs['actions'], tag=tag,
                                               fragment=frag, flags={k: v for k, v in fl.items() if v},
                                               hashseed=os.environ.get('PYTHONHASHSEED')))
            if len(samples) < 2 and nontrivial:
                samples.append(dict(nodes=[[nd['params'], nd['beh'], nd['fails']] for nd in spec['nodes']],
                                    actions=obs['actions'][:30], outcome=run['outcome'][:1], fragment=frag))
    model.close()
    print(json.dumps(dict(stats=dict(st), dist=dict(dist), violations=violations, k2_broken=k2_broken,
                          known_hits=dict(known_hits), samples=samples, distinct_nontrivial=len(distinct),
                          wall=time.time() - t0)))


if __name__ == '__main__':
    main()
