"""C06 worker: plain DAGs on the real engine; the schedule withholds every body completion of depth d, runs the loop to
quiescence and checks that ALL nodes of depth d have been started (nobody waits for a sibling), then releases depth d and goes
on to d+1. Execution modes are mixed (inline / immediate nodes simply complete). Also checks that the order networkx
produced for the main DAG is generation-sorted (the library property the theorem depends on) and compares the run with the
extracted model (K2) and the reference (outcome).
usage: special_c06.py C06 <seed> <n_programs> <tier>"""
import collections
import json
import os
import random
import sys
import time

HERE = os.path.dirname(os.path.abspath(__file__))
sys.path.insert(0, HERE)
import gen as G  # noqa: E402
import oracles as O  # noqa: E402
import progspec as ps  # noqa: E402
import runimpl as R  # noqa: E402
import runmodel as M  # noqa: E402


def depths(spec):
    n = len(spec['nodes'])
    d = {}
    for i in range(n):
        preds = [m for _, mk in spec['nodes'][i]['params'] for m in ps.mark_nodes(mk)]
        if not preds and i != 0:
            preds = [0]
        d[i] = 0 if not preds else 1 + max(d[p] for p in preds)
    return d


class LevelPolicy:
    """quiesce; (check happens outside through the callback); release the gates of the current level in random order"""

    def __init__(self, rng, spec, dep, on_quiescent):
        self.rng = rng
        self.dep = dep
        self.level = 0
        self.on_quiescent = on_quiescent
        self.state = 'q'

    def next(self, ready, pending):
        if ready:
            return ['q']
        # quiescent
        body = [g for g in pending if g[0] == 'b']
        other = [g for g in pending if g[0] != 'b']
        if other:
            return ['g', self.rng.choice(other)]
        while True:
            cur = [g for g in body if self.dep.get(g[1]) == self.level]
            if self.state == 'q':
                self.on_quiescent(self.level, body)
                self.state = 'release'
            if cur:
                return ['g', self.rng.choice(cur)]
            if not body or self.level > max(self.dep.values()) + 1:
                # nothing of this or a deeper level is outstanding (if bodies are outstanding at a SMALLER level something was started out of
                # turn and the level check above has already reported it): release whatever is left, else stop
                return ['g', self.rng.choice(body)] if body else None
            self.level += 1
            self.state = 'q'


def main():
    prop, seed, n, tier = sys.argv[1], int(sys.argv[2]), int(sys.argv[3]), sys.argv[4]
    rng = random.Random(seed)
    model = M.Model()
    st = collections.Counter()
    dist = collections.Counter()
    violations, k2_broken, samples = [], [], []
    distinct = set()
    t0 = time.time()
    live = None
    for c in range(n):
        kw = dict(G.PROFILES['plain_ok'])
        kw['modes'] = rng.choice([None, ['gated', 'gated', 'immediate', 'inline', 'thread', 'process'], ['gated', 'thread', 'process']])
        if kw['modes'] is None:
            kw.pop('modes')
        spec = G.gen_program(rng, **kw)
        spec['managers'] = rng.choice([0, 0, 1])
        ps.spec_defaults(spec)
        ref = O.reference(model, spec)
        if not ref['flags']['Plain']:
            continue
        dep = depths(spec)
        live = ps.closure(spec['nodes'], len(spec['nodes']) - 1) | {0}
        problems = []
        trace_ref = {}

        def on_quiescent(level, body_pending, spec=spec, dep=dep, live=live, problems=problems, trace_ref=trace_ref):
            started = {e[1] for e in trace_ref['rt'].trace if e[0] == 'start'}
            for i in sorted(live):
                if dep[i] == level and i not in started:
                    problems.append('depth %d reached (all nodes of smaller depth completed) but node %d of that depth has not been started; '
                                    'started=%s pending=%s' % (level, i, sorted(started), body_pending))
        pol = LevelPolicy(rng, spec, dep, on_quiescent)
        tag = '_c06_%d_%d' % (seed, c)
        built = R.build(json.loads(json.dumps(spec)), tag)
        # the policy needs the live trace of the run: grab the Runtime when the run starts
        orig_start = R.Run.start

        def start(self, _orig=orig_start, trace_ref=trace_ref):
            trace_ref['rt'] = self.rt
            return _orig(self)
        R.Run.start = start
        try:
            obs = R.run_schedule(json.loads(json.dumps(spec)), pol, tag=tag, built=built)
        except Exception as e:  # noqa: BLE001
            violations.append(dict(kind='harness-error', problems=['%s: %s' % (type(e).__name__, e)], spec=spec, actions=[], tag=tag))
            continue
        finally:
            R.Run.start = orig_start
        st['evaluations'] += 1
        dist['nodes:%d' % len(spec['nodes'])] += 1
        dist['maxdepth:%d' % max(dep[i] for i in live)] += 1
        width = collections.Counter(dep[i] for i in live)
        dist['maxwidth:%d' % max(width.values())] += 1
        for nd in spec['nodes']:
            dist['mode:' + nd['mode']] += 1
        # generation order of the main DAG
        for o in obs['orders']:
            if o['source'] == ['n', 0] and o['dest'] == ['n', len(spec['nodes']) - 1] and not o['rec'] and not o['oneof']:
                ds = [dep[k[1]] for k in o['order'] if k[0] == 'n']
                if ds != sorted(ds):
                    problems.append('the topological order of the main DAG is not generation-sorted: depths %s' % ds)
        run = obs['runs'][0]
        if obs['verdict'] != 'finished' or run['outcome'][0] != 'value' or ref['result'][0] != 'ok' or run['outcome'][1] != ref['result'][1]:
            problems.append('run did not finish with the reference value: verdict=%s outcome=%s' % (obs['verdict'], json.dumps(run['outcome'])[:120]))
        res = model.run(spec, obs['actions'], obs['orders'], obs['descendants'], hyps=(2 if len(spec['nodes']) <= 9 else 1), obs=obs)
        # hypotheses of C06_on_plain_programs on this program, with the orders recorded from the real chart (extracted model)
        if res.get('plain') and not res.get('ambiguous_orders'):
            st['plain_programs_runs'] += 1
            if res.get('orders_valid'):
                st['plain_hypotheses_hold'] += 1
            if res.get('hyps') == 2:
                st['plain_c06_hypotheses_evaluated'] += 1
            if res.get('orders_valid') and res.get('orders_by_depth'):
                st['plain_c06_hypotheses_hold'] += 1
            elif (res.get('hyps') == 2 or not res.get('orders_valid')) and len(k2_broken) < 3:
                k2_broken.append(dict(diffs=['the launch / successor orders recorded from networkx are not valid and depth-sorted: the hypotheses of '
                                             'C06_on_plain_programs fail on this program'], spec=spec, actions=obs['actions'], tag=tag))
        if not res.get('ambiguous_orders'):
            st['k2_compared'] += 1
            d = M.compare(obs, res)
            if d:
                st['k2_disagree'] += 1
                if len(k2_broken) < 3:
                    k2_broken.append(dict(diffs=d[:3], spec=spec, actions=obs['actions'], tag=tag))
        key = json.dumps([spec['nodes'], obs['actions']], sort_keys=True)
        if max(width.values()) >= 2 and key not in distinct:
            distinct.add(key)
        if problems:
            st['violations'] += 1
            if len(violations) < 4:
                violations.append(dict(kind='property', problems=problems[:3], spec=spec, actions=obs['actions'], tag=tag))
        if len(samples) < 2 and max(width.values()) >= 2:
            samples.append(dict(nodes=[[nd['params'], nd['mode']] for nd in spec['nodes']], depths=[dep[i] for i in range(len(spec['nodes']))],
                                actions=obs['actions'][:30]))
    model.close()
    print(json.dumps(dict(stats=dict(st), dist=dict(dist), violations=violations, k2_broken=k2_broken, known_hits={}, samples=samples,
                          distinct_nontrivial=len(distinct), wall=time.time() - t0,
                          rule='plain DAGs (no failures) grown by harness/gen.py with mixed execution modes, run on the real engine on the virtual loop under a '
                               'level-by-level schedule: all body completions of depth d are withheld, the loop runs to quiescence, every node of depth d must have '
                               'logged a body start, then depth d is released in random order; non-trivial = some depth has >= 2 nodes; distinct = distinct (program, action list)')))


if __name__ == '__main__':
    main()
