"""C18: random operation sequences on a real temporary directory through the real FileSystemArtifactStore,
compared with the extracted Coq model (K2) and with a plain dict (K1)."""
import asyncio
import collections
import json
import os
import random
import shutil
import sys
import tempfile
import time
import warnings

HERE = os.path.dirname(os.path.abspath(__file__))
sys.path.insert(0, HERE)
REPO = os.environ.get('VERIF_REPO', '/repo')
sys.path.insert(0, REPO)
warnings.simplefilter('ignore')
import runmodel as M  # noqa: E402

ALPHA = ['x', 'y', 'a', 'b', '.', '.', '*', '?', '[', ']', '1', '-', ' ', 'pickle', 'json', '.pickle', '.json', 'é', '!', '{', '}', '~', '#']


def gen_id(rng, pool):
    r = rng.random()
    if pool and r < 0.45:
        return rng.choice(pool)
    if pool and r < 0.65:
        base = rng.choice(pool)
        return base + rng.choice(['.y', '.pickle', '.json', '*', 'x', '.', '[1]', '?'])
    if pool and r < 0.75:
        base = rng.choice(pool)
        return base[:max(1, len(base) - rng.randint(1, 3))]
    return ''.join(rng.choice(ALPHA) for _ in range(rng.randint(1, 4))) or 'x'


def make_value(kind, n):
    if kind == 'good':
        return rng_value(n)
    if kind == 'ponly':
        return {('t', n), n}            # a set of tuples: picklable, not JSON
    return lambda: n                    # neither picklable nor JSON


def rng_value(n):
    return [{'k%d' % n: n, 'u': 'é%d' % n}, n, 'v%d' % n, [n, None, True]][n % 4]


def run_case(rng, model, tmpbase):
    from ml_pipeline_engine.artifact_store.store.filesystem import FileSystemArtifactStore
    from ml_pipeline_engine.artifact_store.enums import DataFormat
    from ml_pipeline_engine.artifact_store.errors import ArtifactAlreadyExists, ArtifactDoesNotExist
    d = tempfile.mkdtemp(dir=tmpbase)
    nctx = rng.choice([1, 1, 2, 3])
    ctxs = []
    for c in range(nctx):
        class Ctx:
            model_name = 'model%d' % (c % 2)
            pipeline_id = 'p%d' % (c // 2)
        ctxs.append(FileSystemArtifactStore(Ctx(), d))
    ops = []
    pool = []
    for _ in range(rng.randint(3, 40)):
        i = gen_id(rng, pool)
        if i not in pool:
            pool.append(i)
        c = rng.randrange(nctx)
        if rng.random() < 0.55:
            kind = rng.choice(['good', 'good', 'good', 'ponly', 'bad'])
            ops.append(['save', c, i, rng.choice(['pickle', 'pickle', 'json']), [kind, rng.randint(0, 50)]])
        else:
            ops.append(['load', c, i])
    # implementation
    impl = []
    ref = {}
    refres = []

    async def go():
        for o in ops:
            st = ctxs[o[1]]
            if o[0] == 'save':
                v = make_value(*o[4])
                try:
                    await st.save(o[2], v, fmt=DataFormat.PICKLE if o[3] == 'pickle' else DataFormat.JSON)
                    impl.append(['saved'])
                except ArtifactAlreadyExists:
                    impl.append(['exists'])
                except ArtifactDoesNotExist:
                    impl.append(['missing'])
                except Exception as e:  # noqa: BLE001 - serialisation failures come in many classes
                    impl.append(['dumpfailed'])
            else:
                try:
                    v = await st.load(o[2])
                    impl.append(['loaded', v])
                except ArtifactDoesNotExist:
                    impl.append(['missing'])
                except ArtifactAlreadyExists:
                    impl.append(['exists'])
                except Exception as e:  # noqa: BLE001
                    impl.append(['broken', type(e).__name__])
    asyncio.run(go())
    shutil.rmtree(d, ignore_errors=True)
    # K1: plain dict
    for o in ops:
        k = (o[1], o[2])
        if o[0] == 'save':
            kind = o[4][0]
            if k in ref:
                refres.append(['exists'])
            elif kind == 'bad' or (kind == 'ponly' and o[3] == 'json'):
                refres.append(['dumpfailed'])
            else:
                ref[k] = make_value(*o[4])
                refres.append(['saved'])
        else:
            refres.append(['loaded', ref[k]] if k in ref else ['missing'])
    # K2: extracted model
    sx_ops = [['save', o[1], [ord(ch) for ch in o[2]], o[3], [o[4][0], o[4][1]]] if o[0] == 'save'
              else ['load', o[1], [ord(ch) for ch in o[2]]] for o in ops]
    res = model.ask(M.sx(['fsstore', ['ops'] + sx_ops]))
    mres = []
    for o, r in zip(ops, res.get('results', [])):
        if r[0] == 'loaded':
            mres.append(['loaded', make_value(r[1][0], r[1][1])])
        else:
            mres.append(r)
    probs, k2 = [], []
    for j, (a, b, c) in enumerate(zip(impl, refres, mres)):
        if not same(a, b):
            probs.append('op %d %s: store returned %s, a write-once map returns %s' % (j, json.dumps(ops[j], ensure_ascii=False)[:80], short(a), short(b)))
        if not same(a, c):
            k2.append('op %d %s: impl %s model %s' % (j, json.dumps(ops[j], ensure_ascii=False)[:80], short(a), short(c)))
    if 'driver_error' in res:
        k2.append('driver: ' + res['driver_error'])
    exts = (bytes(res.get('ext_pickle', [])).decode(), bytes(res.get('ext_json', [])).decode())
    if exts != (DataFormat.PICKLE.value, DataFormat.JSON.value):
        k2.append('extension table differs: %r' % (exts,))
    return ops, probs, k2


def short(r):
    return json.dumps(r, default=repr, ensure_ascii=False)[:80]


def same(a, b):
    if a[0] != b[0]:
        return False
    if a[0] == 'loaded':
        va, vb = a[1], b[1]
        if callable(va) or callable(vb):
            return False
        return va == vb
    return True


def main():
    prop, seed, n, tier = sys.argv[1], int(sys.argv[2]), int(sys.argv[3]), sys.argv[4]
    rng = random.Random(seed)
    model = M.Model()
    st = collections.Counter()
    dist = collections.Counter()
    violations, k2_broken, samples = [], [], []
    distinct = set()
    tmpbase = tempfile.mkdtemp(prefix='verif_c18_')
    t0 = time.time()
    # corpus first: the D14 witnesses
    try:
        for c in range(n * 3):
            ops, probs, k2 = run_case(rng, model, tmpbase)
            st['evaluations'] += 1
            st['k2_compared'] += 1
            dist['ops:%d' % (len(ops) // 10 * 10)] += 1
            for o in ops:
                dist['op:' + o[0]] += 1
                if any(ch in o[2] for ch in '.*?[]'):
                    dist['adversarial_id_ops'] += 1
            key = json.dumps(ops, ensure_ascii=False)
            if len(ops) >= 5 and key not in distinct:
                distinct.add(key)
            if k2:
                st['k2_disagree'] += 1
                if len(k2_broken) < 3:
                    k2_broken.append(dict(diffs=k2[:3], ops=ops))
            if probs:
                st['violations'] += 1
                if len(violations) < 3:
                    violations.append(dict(kind='property', problems=probs[:3], ops=ops))
            if len(samples) < 2:
                samples.append(dict(ops=ops[:8]))
    finally:
        shutil.rmtree(tmpbase, ignore_errors=True)
    model.close()
    print(json.dumps(dict(stats=dict(st), dist=dict(dist), violations=violations, k2_broken=k2_broken, known_hits={},
                          samples=samples, distinct_nontrivial=len(distinct), wall=time.time() - t0,
                          rule='random sequences of 3-40 save/load operations over 1-3 contexts sharing one real temporary directory; ids drawn from an '
                               'adversarial alphabet (dots, glob metacharacters, extensions, prefixes/extensions of earlier ids); values JSON-able, '
                               'pickle-only or unserialisable; non-trivial = at least 5 operations; distinct = distinct operation sequences'),
                     ensure_ascii=False, default=repr))


if __name__ == '__main__':
    main()
