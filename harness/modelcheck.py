"""All-schedule model checking of GENERATED small programs with the extracted explorer, tied to the real engine:
for each program (a) the extracted model is explored exhaustively (every schedule, caller cancellation included) and the
property's safety predicates are evaluated on every reachable history-free state -- a violating state comes with an action list;
(b) the real engine is driven along EVERY transition of the explored graph and compared with the model (as harness/exhaustive.py
does for the catalogue). (a) is model checking by extracted code, not a kernel-checked proof: it is evidence and a bug finder
(the theorems are the vm_compute certificates of the catalogue); together with (b) it decides the property for ALL schedules of
these programs on the implementation.
usage: modelcheck.py <property> <seed> <tier> <shard> <nshards>      prints one JSON line"""
import collections
import json
import os
import random
import sys
import time

HERE = os.path.dirname(os.path.abspath(__file__))
sys.path.insert(0, HERE)
import gen as G  # noqa: E402
import oracles as O  # noqa: E402
import runimpl as R  # noqa: E402
import runmodel as M  # noqa: E402
import drive as D  # noqa: E402
import freshcert as F  # noqa: E402

PRED = {'live': 0, 'outcome': 1, 'counts': 2, 'kwargs': 3, 'saves': 4, 'events': 5, 'quiesce': 6, 'c06': 7}
BY_PROP = {
    'C01': ['outcome'], 'C02': ['live', 'quiesce'], 'C03': ['kwargs'], 'C04': ['counts'], 'C05': ['outcome'], 'C06': ['c06'],
    'C09': ['counts', 'kwargs', 'outcome', 'live'], 'C10': ['counts', 'kwargs', 'outcome', 'live'], 'C11': ['counts', 'kwargs', 'outcome', 'live'],
    'C13': ['live'], 'C14': ['events'], 'C19': ['saves', 'outcome'], 'C07': ['outcome'], 'C08': ['outcome'], 'C17': ['outcome'], 'C12': ['counts', 'outcome'],
}
PROFILES = {
    'C06': ['plain_ok'], 'C09': ['switch', 'switch', 'mixed'], 'C10': ['oneof', 'oneof', 'mixed'], 'C11': ['rec', 'rec', 'rec_mixed'],
    'C19': ['plain', 'switch', 'oneof'], 'C14': ['plain', 'switch', 'oneof', 'rec'],
}
DEFAULT_PROFILES = ['plain', 'switch', 'oneof', 'mixed', 'rec']


def do_cert(st, certs, broken, spec, corders, cdescs, tag, frag, states, total):
    c = F.certify(spec, corders, cdescs, tag)
    st['fresh_certificates_attempted'] += 1
    certs.append(dict(nodes=[[nd['params'], nd['beh'], nd['fails'], nd['mode']] for nd in spec['nodes']], managers=spec['managers'],
                      store=spec['store'], fragment=frag, states=states, transitions=total, coqc_seconds=c['seconds'], ok=c['ok']))
    if c['ok']:
        st['fresh_certificates_checked'] += 1
        st['fresh_certificate_states'] += states
    elif c.get('timeout'):
        st['fresh_certificates_timed_out'] += 1
    else:
        broken.append(dict(diffs=['fresh certificate: the kernel does not accept certify = true for a generated program that the '
                                  'extracted explorer accepts: ' + c.get('error', '')[-300:]],
                           spec=spec, actions=[], coq_source=c.get('source', ''), hashseed=os.environ.get('PYTHONHASHSEED')))


def main():
    prop, seed, tier, shard, nshards = sys.argv[1], int(sys.argv[2]), sys.argv[3], int(sys.argv[4]), int(sys.argv[5])
    rng = random.Random(seed * 7919 + shard)
    findings = [f for f in json.load(open(os.path.join(HERE, '..', 'known_findings.json')))['findings'] if prop in f['properties']]
    model = M.Model()
    st = collections.Counter()
    violations, broken, samples = [], [], []
    t0 = time.time()
    budget = 12 if tier == 'quick' else 600
    max_states = 2500 if tier == 'quick' else 12000
    # wall-clock bound of one exploration: the explorer's visited set is a list, a program with tens of thousands of states would
    # take the better part of an hour; such a program is counted as too big (as one exceeding max_states is)
    ask_timeout = 20 if tier == 'quick' else 120
    preds = BY_PROP.get(prop, ['live'])
    # fresh certificates (harness/freshcert.py): kernel-checked all-schedule theorems for programs generated in this run
    cert_quota = (1 if shard == 0 else 0) if tier == 'quick' else 2
    cert_states = (40, 500) if tier == 'quick' else (60, 2500)
    certs = []
    deferred = []
    profs = PROFILES.get(prop, DEFAULT_PROFILES)
    while time.time() - t0 < budget:
        prof = rng.choice(profs)
        kw = dict(G.PROFILES[prof])
        kw['n'] = rng.choice([3, 4, 4, 5, 5, 6])
        if rng.random() < 0.3:
            kw['retry'] = 0.3
        if rng.random() < 0.3:
            kw['modes'] = ['gated', 'gated', 'immediate', 'inline', 'thread']
        spec = G.gen_program(rng, **kw)
        spec['managers'] = rng.choice([0, 0, 1]) if prop != 'C14' else 1
        spec['store'] = rng.choice(['record', 'writeonce']) if prop == 'C19' else 'none'
        if prop in ('C14', 'C04', 'C19') and rng.random() < 0.3:
            spec['mgr_gated'] = spec['managers'] > 0
            spec['store_gated'] = spec['store'] != 'none'
        R.ps.spec_defaults(spec)
        ref = O.reference(model, spec)
        fl = ref['flags']
        tag = '_mc%d_%d' % (shard, st['programs_model_checked'] + st['programs_too_big'] + st['known_finding_programs'] + st['violations'])
        built = R.build(json.loads(json.dumps(spec)), tag)
        orders, descs = D.record_oracles(spec, built, tag)
        fields, _ = D.oracle_fields(spec, orders, descs)
        # (a) model checking (with the library orders recorded from the real chart)
        too_big = False
        unsafe = None
        states = 0
        for pn in preds:
            if pn == 'c06' and not fl['Plain']:
                continue
            res = model.ask(M.sx(['modelcheck'] + fields + [['wc', 1], ['pred', PRED[pn]], ['limit', max_states * 8]]), timeout=ask_timeout)
            if res.get('states') is None:
                too_big = True
                break
            states = max(states, res['states'])
            if res['unsafe'] is not None and unsafe is None:
                unsafe = (pn, res['unsafe'])
        if too_big or states > max_states:
            st['programs_too_big'] += 1
            continue
        st['programs_model_checked'] += 1
        st['states'] += states
        frag = next((f for f in ('Plain', 'Sw', 'OneOfX', 'RecWN') if fl[f]), 'other')
        st['fragment:' + frag] += 1
        if unsafe is not None:
            known = [f for f in findings if fl.get(f['trigger'])]
            if known:
                st['known_finding_programs'] += 1
            else:
                # the model violates the property under this schedule: confirm on the implementation (same state reached?)
                pn, path = unsafe
                obs = R.run_schedule(json.loads(json.dumps(spec)), R.Exact(path), tag=tag, built=built, drain=False)
                resm = model.run(spec, obs['actions'], obs['orders'], obs['descendants'], obs=obs)
                d = M.compare(obs, resm)
                violations.append(dict(kind='property',
                                       problems=['all-schedule model checking: a reachable state violates safe_%s (%d states); the real engine %s'
                                                 % (pn, states, 'reaches the same state under this schedule' if not d else 'departs from the model: ' + d[0][:120])],
                                       spec=spec, actions=path, fragment=frag, flags={k: v for k, v in fl.items() if v}))
                st['violations'] += 1
                continue
        # (b) every transition against the real engine
        seen = {}
        n, bad, total = D.drive_all(model, spec, tag + 'd', st, collect=seen)
        for bk in bad:
            st['disagree'] += 1
            if len(broken) < 4:
                broken.append(dict(bk, diffs=['generated program, exhaustive correspondence: ' + x for x in bk['diffs']],
                                   hashseed=os.environ.get('PYTHONHASHSEED')))
        paths = [None] * total
        if (cert_quota > 0 and not bad and unsafe is None and cert_states[0] <= states <= cert_states[1]
                and not any(fl.get(f['trigger']) for f in json.load(open(os.path.join(HERE, '..', 'known_findings.json')))['findings'])):
            # pre-filter with the extracted explorer on ALL predicates (safe_full); the kernel then re-does the exploration
            allsafe = True
            for pn, code in PRED.items():
                if pn in preds or (pn == 'c06' and not fl['Plain']):
                    continue
                res = model.ask(M.sx(['modelcheck'] + fields + [['wc', 1], ['pred', code], ['limit', max_states * 8]]), timeout=ask_timeout)
                if res.get('states') is None or res['unsafe'] is not None:
                    allsafe = False
            # the certificate is about the program WITH the orders of the real chart: the union of every order the engine used on any
            # driven path; under that table the explorer must produce the very set of paths that was driven (else no certificate)
            corders, cdescs = orders + seen.get('orders', []), dict(descs, **seen.get('descs', {}))
            if allsafe:
                cfields, amb = D.oracle_fields(spec, corders, cdescs)
                same = not amb and model.ask(M.sx(['paths'] + cfields + [['wc', 1]])).get('paths') == seen.get('paths')
                if same:
                    for pn, code in PRED.items():
                        if pn == 'c06' and not fl['Plain']:
                            continue
                        res = model.ask(M.sx(['modelcheck'] + cfields + [['wc', 1], ['pred', code], ['limit', max_states * 8]]), timeout=ask_timeout)
                        same = same and res.get('states') is not None and res['unsafe'] is None
                if not same:
                    st['fresh_certificates_skipped_order_tables_differ'] += 1
                    allsafe = False
            if allsafe and frag == 'Plain' and not spec['managers'] and spec['store'] == 'none' and prop != 'C06' and not deferred:
                deferred.append((spec, corders, cdescs, tag, frag, states, total))     # covered by the kind-F theorems: only if nothing else turns up
                allsafe = False
            if allsafe:
                cert_quota -= 1
                do_cert(st, certs, broken, spec, corders, cdescs, tag, frag, states, total)
        if len(samples) < 1:
            samples.append(dict(nodes=[[nd['params'], nd['beh'], nd['fails']] for nd in spec['nodes']], states=states, transitions=len(paths), fragment=frag))
    if cert_quota > 0 and deferred and not certs:
        do_cert(st, certs, broken, *deferred[0])
    model.close()
    print(json.dumps(dict(stats=dict(st), violations=violations, k2_broken=broken, samples=samples, certs=certs, wall=time.time() - t0)))


if __name__ == '__main__':
    main()
