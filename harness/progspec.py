"""ProgSpec: a JSON-able description of a pipeline program, shared by the implementation side
(materialised as real node classes for the engine in /repo) and the model side (serialised for
the extracted Coq model).

spec = {
  'nodes': [ node_0 (input node), ..., node_{n-1} (output node) ],   # topologically numbered
  'input_kwargs': {'x': 1},
  'managers': 0|1|2,          # recording event managers
  'mgr_gated': bool,          # every event callback awaits a gate
  'mgr_faults': [[event, node_or_None, k]]  # k-th callback of that kind raises EA
  'store': 'none'|'record'|'writeonce',
  'store_gated': bool,
  'store_faults': [[node, k]],
}
node = {
  'params': [[pname, mark], ...],
  'beh': 'ok' | 'none' | ['int', z] | ['str', s] | ['recur', k] | ['receven', k] | ['strep', [l0, l1, ...]] (label by iteration),
  'fails': [cls|None, ...]    # outcome of attempt a = fails[min(a, len-1)]; None = success; [] = never fails
  'mode': 'gated'|'immediate'|'inline'|'thread'|'process',
  'attempts': None|int, 'delay': None|number, 'exceptions': None|[cls...], 'use_default': bool,
  'node_type': None|str (custom node type), 'doc': None|str,
}
mark = ['in', m] | ['sw', d, [[label, m], ...]] | ['oneof', [m, ...]] | ['rec', s, d, maxit]

Canonical node keys (used in traces, shared with the model):
  ['n', i]           real node i
  ['sw', i, j]       switch synthetic node for parameter j of node i
  ['oo', i, j]       one-of synthetic node for parameter j of node i
Canonical values:
  ['i', z] ['s', str] ['none'] ['v', i, [[p, V]...]] ['d', i, [[p, V]...]] ['r', V]
  ['x', cls, i, a] (exception raised by node i at attempt a)
  ['ee', kind, key...] (engine error)
"""
import asyncio
import sys

EXC_PARENT = {'EA': 'Exception', 'EB': 'EA', 'EC': 'Exception', 'BX': 'BaseException'}


class EA(Exception):
    pass


class EB(EA):
    pass


class EC(Exception):
    pass


class BX(BaseException):
    pass


EXC = {'EA': EA, 'EB': EB, 'EC': EC, 'BX': BX, 'Exception': Exception, 'BaseException': BaseException}


def mark_nodes(mk):
    if mk[0] == 'in':
        return [mk[1]]
    if mk[0] == 'sw':
        return [mk[1]] + [m for _, m in mk[2]]
    if mk[0] == 'oneof':
        return list(mk[1])
    if mk[0] == 'rec':
        return [mk[2]]
    raise ValueError(mk)


def node_defaults(nd):
    nd.setdefault('params', [])
    nd.setdefault('beh', 'ok')
    nd.setdefault('fails', [])
    nd.setdefault('mode', 'gated')
    nd.setdefault('attempts', None)
    nd.setdefault('delay', None)
    nd.setdefault('exceptions', None)
    nd.setdefault('use_default', False)
    nd.setdefault('node_type', None)
    nd.setdefault('doc', None)
    return nd


def spec_defaults(spec):
    for nd in spec['nodes']:
        node_defaults(nd)
    spec.setdefault('input_kwargs', {'x': 1})
    spec.setdefault('managers', 0)
    spec.setdefault('mgr_gated', False)
    spec.setdefault('mgr_faults', [])
    spec.setdefault('store', 'none')
    spec.setdefault('store_gated', False)
    spec.setdefault('store_faults', [])
    # SwitchCase(name=...) is optional in the public API: about a third of the programs (chosen by their shape, not by a random draw,
    # so that replays and seeds are stable) declare their switches without a name and get the engine's generated node ids
    spec.setdefault('unnamed_switches', sum(len(nd['params']) for nd in spec['nodes']) % 3 == 0)
    return spec


def closure(nodes, i, acc=None):
    """Declared dependency closure of node i (every node a mark mentions, recursively)."""
    acc = set() if acc is None else acc
    if i in acc:
        return acc
    acc.add(i)
    for _, mk in nodes[i]['params']:
        for m in mark_nodes(mk):
            closure(nodes, m, acc)
        if mk[0] == 'rec':
            pass
    return acc


# ----------------------------------------------------------------------------- values
def find_epoch(v):
    """Largest integer additional_data found anywhere in a python value (0 if none)."""
    best = 0
    if isinstance(v, (tuple, list)):
        if len(v) == 2 and v[0] == 'additional_data' and isinstance(v[1], int):
            best = max(best, v[1])
        for x in v:
            best = max(best, find_epoch(x))
    elif isinstance(v, dict):
        for k, x in v.items():
            k = getattr(k, 'value', k)
            if k == 'additional_data' and isinstance(x, int):
                best = max(best, x)
            best = max(best, find_epoch(x))
    return best


def canon_key(k):
    return str(getattr(k, 'value', k))


def canon(v):
    """Python run-time value -> canonical JSON-able value."""
    from ml_pipeline_engine.types import Recurrent
    if v is None:
        return ['none']
    if isinstance(v, bool):
        return ['i', int(v)]
    if isinstance(v, int):
        return ['i', v]
    if isinstance(v, str):
        return ['s', v]
    if isinstance(v, Recurrent):
        return ['r', canon(v.data)]
    if isinstance(v, BaseException):
        tag = getattr(v, 'verif_tag', None)
        if tag is not None:
            return ['x'] + list(tag)
        return ['ee', type(v).__name__]
    if isinstance(v, tuple) and len(v) == 3 and v[0] in ('v', 'd'):
        return [v[0], v[1], [[canon_key(k), canon(x)] for k, x in v[2]]]
    if isinstance(v, dict):
        return ['dict', sorted([canon_key(k), canon(x)] for k, x in v.items())]
    return ['py', repr(v)]


def canon_kwargs(kw):
    return sorted([canon_key(k), canon(x)] for k, x in kw.items())


def has_bad(v, kinds=('x', 'ee', 'r', 'py')):
    """True if a canonical value contains an exception, engine error, Recurrent marker or foreign object."""
    if isinstance(v, list):
        if v and v[0] in kinds and isinstance(v[0], str) and (len(v) > 1 or v[0] in ('ee',)):
            if v[0] in ('x', 'ee', 'py'):
                return True
            if v[0] == 'r' and len(v) == 2:
                return True
        return any(has_bad(x, kinds) for x in v)
    return False


# ----------------------------------------------------------------------------- materialisation
class Runtime:
    """Per-run mutable harness state shared by the materialised classes."""

    def __init__(self):
        self.trace = []
        self.gates = {}        # gid(tuple) -> dict(fut=..., kind=..., payload=...)
        self.gate_order = []   # creation order
        self.calls = {}        # node index -> last invocation (arguments, attempt index, raised?) of this run
        self.counters = {}
        self.run_tag = 0
        self.reused = []       # node indices whose body / get_default ran on an object that had already served an invocation

    def count(self, key):
        k = self.counters.get(key, 0)
        self.counters[key] = k + 1
        return k

    def new_gate(self, gid, loop=None):
        loop = loop or asyncio.get_running_loop()
        f = loop.create_future()
        self.gates[gid] = f
        self.gate_order.append(gid)
        return f

    def pending(self):
        return sorted((g for g, f in self.gates.items() if not f.done()), key=lambda g: [str(x) for x in g])


def make_exc(cls, i, a):
    e = EXC[cls]('node %d attempt %d' % (i, a))
    e.verif_tag = (cls, i, a)
    return e


def materialize(spec, rt_holder, tag=''):
    """Build real node classes for the spec. rt_holder is a 1-element list holding the current Runtime
    (so that one set of classes / one chart can be run several times, each run with a fresh Runtime —
    or with a shared one for overlapping runs, in which case run identity travels in input_kwargs)."""
    import typing as t
    from ml_pipeline_engine.dag_builders.annotation.marks import Input, InputOneOf, SwitchCase, RecurrentSubGraph
    from ml_pipeline_engine.node import ProcessorBase, RecurrentProcessor
    from ml_pipeline_engine.node.enums import NodeTag

    nodes = spec['nodes']
    classes = []
    rec_starts = {mk[1] for nd in nodes for _, mk in nd['params'] if mk[0] == 'rec'}

    def outcome(i, nd, kwargs, rt):
        # attempt index within one execution: the number of immediately preceding invocations of this node with the
        # same arguments that raised (a success, other arguments or a get_default call start a new execution)
        # -- and made by the same asyncio task: all attempts of one execution run in one _run_node task, a re-execution (next
        # iteration of a recurrent subgraph) in a new one, even when it passes the very same arguments after a failure
        ck = canon_kwargs(kwargs)
        prev = rt.calls.get(i)
        try:
            task = asyncio.current_task()
        except RuntimeError:
            task = None
        a = prev['a'] + 1 if prev and prev['ck'] == ck and prev['raised'] and prev['task'] is task else 0
        rt.calls[i] = dict(ck=ck, a=a, raised=False, task=task)
        return a, ck

    def probe_object(self, rt, i):
        # the engine runs every invocation (each attempt, each get_default) on a node object of its own: an object that has already
        # served an invocation would carry per-object state of user nodes from one invocation / run into another (C07, C08)
        if getattr(self, '_verif_used', False):
            rt.reused.append(i)
        try:
            self._verif_used = True
        except Exception:  # noqa: BLE001
            pass

    def compute(i, nd, kwargs, a, self):
        fails = nd['fails']
        if fails:
            cls = fails[min(a, len(fails) - 1)]
            if cls is not None:
                rt_holder[0].trace.append(['raise', i, cls])
                if rt_holder[0].calls.get(i):
                    rt_holder[0].calls[i]['raised'] = True
                raise make_exc(cls, i, a)
        b = nd['beh']
        if b == 'none':
            return None
        if isinstance(b, list) and b[0] in ('int', 'str'):
            return b[1]
        if isinstance(b, list) and b[0] == 'recur':
            ep = find_epoch(kwargs)
            if ep < b[1]:
                return self.next_iteration(ep + 1)
        if isinstance(b, list) and b[0] == 'receven':
            ep = find_epoch(kwargs)
            if ep % 2 == 0 and ep < b[1]:
                return self.next_iteration(ep + 1)
        if isinstance(b, list) and b[0] == 'strep':
            return b[1][min(find_epoch(kwargs), len(b[1]) - 1)]
        return ('v', i, tuple(sorted((canon_key(k), v) for k, v in kwargs.items())))

    for i, nd in enumerate(nodes):
        def mk(i=i, nd=nd):
            mode = nd['mode']
            if mode in ('gated', 'immediate'):
                async def process(self, **kwargs):
                    rt = rt_holder[0]
                    probe_object(self, rt, i)
                    a, ck = outcome(i, nd, kwargs, rt)
                    k = rt.count(('b', i))
                    rt.trace.append(['start', i, k, ck])
                    if mode == 'gated':
                        await rt.new_gate(('b', i, k))
                    return compute(i, nd, kwargs, a, self)
            else:
                def process(self, **kwargs):
                    rt = rt_holder[0]
                    probe_object(self, rt, i)
                    a, ck = outcome(i, nd, kwargs, rt)
                    k = rt.count(('b', i))
                    rt.trace.append(['start', i, k, ck])
                    # thread/process: the fake executor runs the function at submission time and
                    # holds its outcome back until the gate ('b', i, k) is completed
                    rt.last_sync_call = (i, k)
                    return compute(i, nd, kwargs, a, self)

            def get_default(self, **kwargs):
                rt = rt_holder[0]
                probe_object(self, rt, i)
                rt.calls.pop(i, None)
                rt.trace.append(['default', i, canon_kwargs(kwargs)])
                return ('d', i, tuple(sorted((canon_key(k), v) for k, v in kwargs.items())))

            ann = {}
            for j, (pn, m) in enumerate(nd['params']):
                if m[0] == 'in':
                    ann[pn] = Input(classes[m[1]])
                elif m[0] == 'sw':
                    ann[pn] = SwitchCase(switch=classes[m[1]], cases=[(l, classes[c]) for l, c in m[2]],
                                         name=None if spec.get('unnamed_switches') else 's%d_%d%s' % (i, j, tag))
                elif m[0] == 'oneof':
                    ann[pn] = InputOneOf([classes[c] for c in m[1]])
                elif m[0] == 'rec':
                    ann[pn] = RecurrentSubGraph(start_node=classes[m[1]], dest_node=classes[m[2]], max_iterations=m[3])
            if i in rec_starts:
                ann['additional_data'] = t.Any
            process.__annotations__ = ann
            if nd['doc']:
                process.__doc__ = nd['doc']
            attrs = {'process': process, 'get_default': get_default, 'name': 'n%d%s' % (i, tag),
                     'use_default': nd['use_default'], 'attempts': nd['attempts'], 'delay': nd['delay'],
                     'exceptions': tuple(EXC[c] for c in nd['exceptions']) if nd['exceptions'] is not None else None,
                     'verbose_name': 'Node %d' % i}
            if mode == 'inline':
                attrs['tags'] = (NodeTag.non_async,)
            elif mode == 'process':
                attrs['tags'] = (NodeTag.process,)
            elif mode == 'thread':
                attrs['tags'] = ()
            if nd['node_type']:
                attrs['node_type'] = nd['node_type']
            return type('N%d%s' % (i, tag), (RecurrentProcessor,), attrs)
        classes.append(mk())
    return classes


def node_id_maps(spec, classes, tag=''):
    """engine node id -> canonical key, and back."""
    from ml_pipeline_engine.node import get_node_id
    to_key = {}
    for i, c in enumerate(classes):
        to_key[get_node_id(c)] = ['n', i]
    for i, nd in enumerate(spec['nodes']):
        for j, (pn, m) in enumerate(nd['params']):
            if m[0] == 'sw':
                if not spec.get('unnamed_switches'):     # generated ids are identified on the built graph (runimpl.build)
                    to_key['switch__s%d_%d%s' % (i, j, tag)] = ['sw', i, j]
            elif m[0] == 'oneof':
                to_key['input_one_of__%d___%s' % (j, get_node_id(classes[i]))] = ['oo', i, j]
    return to_key


def install_path(repo='/repo'):
    if repo not in sys.path:
        sys.path.insert(0, repo)


def pure_compute(i, nd_json, kwargs, self):
    """stateless node body (for real thread / process pools): outcome depends on the arguments only"""
    import json as _json
    nd = _json.loads(nd_json)
    fails = nd['fails']
    if fails and fails[0] is not None:
        raise make_exc(fails[0], i, 0)
    b = nd['beh']
    if b == 'none':
        return None
    if isinstance(b, list) and b[0] in ('int', 'str'):
        return b[1]
    if isinstance(b, list) and b[0] == 'recur':
        ep = find_epoch(kwargs)
        if ep < b[1]:
            return self.next_iteration(ep + 1)
    if isinstance(b, list) and b[0] == 'receven':
        ep = find_epoch(kwargs)
        if ep % 2 == 0 and ep < b[1]:
            return self.next_iteration(ep + 1)
    if isinstance(b, list) and b[0] == 'strep':
        return b[1][min(find_epoch(kwargs), len(b[1]) - 1)]
    return ('v', i, tuple(sorted((canon_key(k), v) for k, v in kwargs.items())))
