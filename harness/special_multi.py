"""C07 / C08 worker: several runs of ONE chart on one virtual loop -- one after the other (C07) or overlapping (C08).
Every run is compared (K2) with the single-run Coq model under the schedule induced on it (the content of the projection
theorem C08_projection / C07_each_run_is_a_fresh_run) and judged (K1) by the single-run oracles against the reference
evaluated on that run's own input; the chart (graph, attributes, node map, class attributes) and the caller's input dict are
snapshotted before and after every run.
usage: special_multi.py <C07|C08> <seed> <n_programs> <tier>"""
import collections
import json
import os
import random
import sys
import time

HERE = os.path.dirname(os.path.abspath(__file__))
sys.path.insert(0, HERE)
import gen as G  # noqa: E402
import oracles as O  # noqa: E402
import props  # noqa: E402
import runimpl as R  # noqa: E402
import runmodel as M  # noqa: E402
import worker as W  # noqa: E402

CFG = dict(profiles=props.ALL, retry=0.2, modes=True, managers=[0, 1], stores=['none', 'record'], gated_collab=0.2)


def induced(actions, idx, sequential):
    """single-run action list of run #idx out of the global action list"""
    out = []
    cur = 0
    for a in actions:
        if a[0] == 'next_run':
            cur += 1
            continue
        if sequential and cur != idx:
            continue
        if a[0] in ('q', 's'):
            out.append(a)
        elif a[0] == 'g':
            g = a[1]
            if g[0] == 'R':
                if g[1] == idx:
                    out.append(['g', g[2:]])
            else:
                out.append(a)
        elif a[0] == 'c' and a[1] == idx:
            out.append(['c', 0])
    return out


def main():
    prop, seed, n, tier = sys.argv[1], int(sys.argv[2]), int(sys.argv[3]), sys.argv[4]
    overlap = prop == 'C08'
    findings = [f for f in json.load(open(os.path.join(HERE, '..', 'known_findings.json')))['findings']
                if set(f['properties']) & {'C01', 'C02', 'C03', 'C05', prop}]
    rng = random.Random(seed)
    model = M.Model()
    st = collections.Counter()
    dist = collections.Counter()
    violations, k2_broken, samples = [], [], []
    known_hits = collections.Counter()
    distinct = set()
    t0 = time.time()
    n = max(1, n // 2)
    for c in range(n):
        prof, spec = W.make_case(rng, CFG)
        k = rng.choice([2, 2, 3]) if overlap else rng.choice([2, 3, 4])
        inputs = [{'x': 1 + 10 * i} for i in range(k)]
        dist['profile:' + prof] += 1
        dist['runs:%d' % k] += 1
        cancel_run = rng.randrange(k) if rng.random() < 0.35 else None
        cancel_at = rng.randint(2, 30) if cancel_run is not None else None
        # overlapping runs: quiescent-batch schedules only (a single loop step cannot be attributed to a run from outside)
        if overlap or rng.random() < 0.6:
            pol = R.RandomBatch(rng, cancel_at=cancel_at, cancel_run=cancel_run or 0)
            kind = 'batch'
        else:
            pol = R.RandomStep(rng, cancel_at=cancel_at, cancel_run=cancel_run or 0)
            kind = 'step'
        tag = '_m%d_%d' % (seed, c)
        try:
            obs = R.run_schedule(json.loads(json.dumps(spec)), pol, n_runs=k, overlap=overlap, inputs=[dict(i) for i in inputs], tag=tag)
        except Exception as e:  # noqa: BLE001
            violations.append(dict(kind='harness-error', error='%s: %s' % (type(e).__name__, e), spec=spec, actions=[], tag=tag))
            continue
        st['evaluations'] += 1
        dist['sched:' + kind] += 1
        dist['verdict:' + obs['verdict']] += 1
        key = json.dumps([spec['nodes'], obs['actions']], sort_keys=True)
        if len(obs['actions']) >= 4 and key not in distinct:
            distinct.add(key)
        probs = []
        if not obs['snapshots_equal']:
            probs.append('the chart changed between runs: %s' % json.dumps(obs.get('snapshot_diff'))[:200])
        fl = None
        disagree = False
        for i, run in enumerate(obs['runs']):
            if run['input_before'] != run['input_after']:
                probs.append("run %d: the caller's input_kwargs changed: %s -> %s" % (i, json.dumps(run['input_before']), json.dumps(run['input_after'])))
            if run.get('reused_objects'):
                probs.append('run %d: node objects were used for more than one invocation (state kept on a node object leaks between invocations / runs): nodes %s' % (i, run['reused_objects']))
            spec_i = json.loads(json.dumps(spec))
            spec_i['input_kwargs'] = inputs[i]
            ref = O.reference(model, spec_i)
            fl = ref['flags']
            dist['outcome:' + run['outcome'][0]] += 1
            # K2: this run vs the single-run model under its induced schedule
            acts = induced(obs['actions'], i, not overlap)
            res = model.run(spec_i, acts, obs['orders'], obs['descendants'])
            if res.get('ambiguous_orders'):
                st['ambiguous_orders'] += 1
            else:
                pseudo = dict(runs=[run], verdict=('deadlock' if (obs['verdict'] == 'deadlock' and run['outcome'][0] == 'pending') else 'finished'),
                              quiescent=res.get('quiescent', []))
                res2 = dict(res)
                res2['quiescent'] = [[json.loads(g) if isinstance(g, str) else g for g in q] for q in res.get('quiescent', [])]
                pseudo['quiescent'] = res2['quiescent']
                d = [x for x in M.compare(pseudo, res2) if not x.startswith('outstanding gates')]
                st['k2_compared'] += 1
                if d:
                    disagree = True
                    st['k2_disagree'] += 1
                    if len(k2_broken) < 5:
                        k2_broken.append(dict(diffs=['run %d: %s' % (i, x) for x in d[:3]], spec=spec, actions=obs['actions'], tag=tag,
                                              opts=dict(n_runs=k, overlap=overlap, inputs=inputs), hashseed=os.environ.get('PYTHONHASHSEED')))
            # K1: single-run oracles for this run against the reference on its own input
            P = O.check_run(spec_i, obs, ref, run_idx=i)
            if not (spec['mgr_faults'] or spec['store_faults']):
                for pid in ('C01', 'C02', 'C03', 'C05'):
                    probs += ['run %d: %s' % (i, p) for p in P[pid]]
            else:
                probs += ['run %d: %s' % (i, p) for p in P['C02']]
        if probs:
            hit = O.known_instance(findings, fl or {}, [p.split(': ', 1)[-1] if p.startswith('run ') else p for p in probs]) if not disagree else None
            if hit:
                known_hits[hit['id']] += 1
                st['known_finding_instances'] += 1
            else:
                st['violations'] += 1
                if len(violations) < 5:
                    violations.append(dict(kind='property', problems=probs[:4], spec=spec, actions=obs['actions'], tag=tag,
                                           opts=dict(n_runs=k, overlap=overlap, inputs=inputs), hashseed=os.environ.get('PYTHONHASHSEED')))
        if len(samples) < 2:
            samples.append(dict(nodes=[[nd['params'], nd['beh'], nd['fails']] for nd in spec['nodes']], runs=k, overlap=overlap,
                                actions=obs['actions'][:30], outcomes=[r['outcome'][:1] for r in obs['runs']]))
    model.close()
    rule = ('programs grown by harness/gen.py; %s of 2-4 runs of ONE chart with different inputs (optionally one of them cancelled at a random step) under a random '
            'schedule on one virtual loop; every run is compared with the single-run model under the schedule induced on it and with the reference on its own input; '
            'chart and input dict snapshotted around every run; distinct = distinct (program, action list) with >= 4 actions'
            % ('overlapping execution' if overlap else 'a history'))
    print(json.dumps(dict(stats=dict(st), dist=dict(dist), violations=violations, k2_broken=k2_broken, known_hits=dict(known_hits),
                          samples=samples, distinct_nontrivial=len(distinct), rule=rule, wall=time.time() - t0)))


if __name__ == '__main__':
    main()
