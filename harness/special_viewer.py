"""C20: the real GraphConfigImpl(dag).generate(...).as_dict() on DAGs built from source-defined classes (a module is
generated per case, because the viewer reads source lines), compared with the extracted Coq model (K2) and checked
clause by clause against the DAG (K1)."""
import collections
import importlib
import json
import os
import random
import shutil
import sys
import tempfile
import time
import types
import warnings

HERE = os.path.dirname(os.path.abspath(__file__))
sys.path.insert(0, HERE)
REPO = os.environ.get('VERIF_REPO', '/repo')
sys.path.insert(0, REPO)
warnings.simplefilter('ignore')
import logging  # noqa: E402
logging.disable(logging.CRITICAL)
# the viewer module imports packages needed only by build_static (copying static files), which is out of scope
for m in ('importlib_resources',):
    try:
        importlib.import_module(m)
    except ImportError:
        sys.modules[m] = types.ModuleType(m)
try:
    import distutils.dir_util  # noqa: F401
except ImportError:
    d = types.ModuleType('distutils')
    du = types.ModuleType('distutils.dir_util')
    du.copy_tree = lambda *a, **k: None
    sys.modules['distutils'] = d
    sys.modules['distutils.dir_util'] = du
import gen as G  # noqa: E402
import progspec as ps  # noqa: E402
import runmodel as M  # noqa: E402
from special_builder import real_graph  # noqa: E402

TYPES = [None, None, None, 'ml_model', 'datasource', 'generic', 'ENUM:generic', 'ENUM:processor', 'NONE', 'feature']


def gen_source(spec, tag):
    """python source of a module defining N0..Nk for the spec; returns (source, info per node)"""
    lines = ['from ml_pipeline_engine.dag_builders.annotation.marks import Input, InputOneOf, SwitchCase, RecurrentSubGraph, GenericInput',
             'from ml_pipeline_engine.node import ProcessorBase, RecurrentProcessor, build_node',
             'from ml_pipeline_engine.node.enums import NodeType', 'import typing as t', '']
    nodes = spec['nodes']
    rec_starts = {mk[1] for nd in nodes for _, mk in nd['params'] if mk[0] == 'rec'}
    info = []
    for i, nd in enumerate(nodes):
        anns = []
        for j, (pn, m) in enumerate(nd['params']):
            if m[0] == 'in':
                a = 'Input(N%d)' % m[1]
            elif m[0] == 'sw':
                a = 'SwitchCase(switch=N%d, cases=[%s], name=%r)' % (m[1], ', '.join('(%r, N%d)' % (l, c) for l, c in m[2]), 's%d_%d%s' % (i, j, tag))
            elif m[0] == 'oneof':
                a = 'InputOneOf([%s])' % ', '.join('N%d' % c for c in m[1])
            else:
                a = 'RecurrentSubGraph(start_node=N%d, dest_node=N%d, max_iterations=%d)' % (m[1], m[2], m[3])
            anns.append((pn, a))
        if i in rec_starts:
            anns.append(('additional_data', 't.Any'))
        if i == 0 and not anns:
            anns.append(('x', 'int'))
        ty = nd.get('vtype')
        doc = nd.get('doc')
        name = 'n%d%s' % (i, tag)
        verbose = 'Node %d' % i
        generic = nd.get('generic', 0)
        attrs = ['    name = %r' % name, '    verbose_name = %r' % verbose]
        declared_type = 'processor'
        if ty == 'NONE':
            attrs.append('    node_type = None')
            declared_type = None
        elif ty and ty.startswith('ENUM:'):
            attrs.append('    node_type = NodeType.%s' % ty[5:])
            declared_type = ty[5:]
        elif ty:
            attrs.append('    node_type = %r' % ty)
            declared_type = ty
        sig = ', '.join('%s: %s' % (pn, a) for pn, a in anns)
        if generic:
            # a generic base class with GenericInput marks, rebound with build_node (possibly twice)
            gsig = ', '.join('%s: GenericInput(ProcessorBase)' % pn for pn, _ in anns)
            lines += ['class G%d(RecurrentProcessor):' % i] + (['    """%s"""' % doc] if doc and generic == 1 else []) + attrs + \
                     ['    def process(self%s):' % ((', ' + gsig) if gsig else '')] + \
                     (['        """%s"""' % doc] if doc and generic != 1 else []) + ['        return None', '']
            deps = ', '.join('%s=%s' % (pn, a) for pn, a in anns)
            over = rng_name = 'n%d%s' % (i, tag)
            cname = None if i % 2 == 0 else 'Rebound%d%s' % (i, tag)
            lines.append('N%d = build_node(G%d, node_name=%r, class_name=%r%s)' % (i, i, over, cname, (', ' + deps) if deps else ''))
            final_name = cname or 'GenericG%d' % i
            if generic == 2:
                cname2 = None if i % 3 == 0 else 'Twice%d%s' % (i, tag)
                lines.append('N%d = build_node(N%d, node_name=%r, class_name=%r%s)' % (i, i, over, cname2, (', ' + deps) if deps else ''))
                final_name = cname2 or 'Generic' + final_name
            lines.append('')
            is_generic = 'generic' in final_name.lower()
        else:
            lines += ['class N%d(RecurrentProcessor):' % i] + (['    """%s"""' % doc] if doc and i % 2 == 0 else []) + attrs + \
                     ['    def process(self%s):' % ((', ' + sig) if sig else '')] + \
                     (['        """%s"""' % doc] if doc and i % 2 == 1 else []) + ['        return None', '']
            is_generic = False
        info.append(dict(name=name, verbose=verbose, type=declared_type, doc=doc, generic=is_generic))
    return '\n'.join(lines) + '\n', info


def main():
    prop, seed, n, tier = sys.argv[1], int(sys.argv[2]), int(sys.argv[3]), sys.argv[4]
    from ml_pipeline_engine.dag_builders.annotation import build_dag
    from ml_pipeline_viewer.visualization.dag import GraphConfigImpl
    from ml_pipeline_engine.node import get_node_id
    rng = random.Random(seed)
    model = M.Model()
    st = collections.Counter()
    dist = collections.Counter()
    violations, k2_broken, samples = [], [], []
    distinct = set()
    tmp = tempfile.mkdtemp(prefix='verif_c20_')
    sys.path.insert(0, tmp)
    t0 = time.time()
    try:
        for c in range(n):
            prof = rng.choice(['plain', 'switch', 'oneof', 'mixed', 'mixed_all', 'rec', 'rec_mixed'])
            spec = G.gen_program(rng, **G.PROFILES[prof])
            for nd in spec['nodes']:
                nd['vtype'] = rng.choice(TYPES)
                nd['doc'] = rng.choice([None, 'Doc of the node', 'Второе описание'])
                nd['generic'] = rng.choice([0, 0, 0, 1, 2]) if nd['vtype'] != 'NONE' else 0
            ps.spec_defaults(spec)
            tag = '_%d_%d' % (seed, c)
            src, info = gen_source(spec, tag)
            mod = 'verif_viewer_mod%s' % tag
            with open(os.path.join(tmp, mod + '.py'), 'w') as f:
                f.write(src)
            probs, k2 = [], []
            try:
                module = importlib.import_module(mod)
                classes = [getattr(module, 'N%d' % i) for i in range(len(spec['nodes']))]
                dag = build_dag(input_node=classes[0], output_node=classes[-1])
            except Exception as e:  # noqa: BLE001
                st['build_skipped'] += 1
                continue
            to_key = {get_node_id(cl): ['n', i] for i, cl in enumerate(classes)}
            for i, nd in enumerate(spec['nodes']):
                for j, (pn, m) in enumerate(nd['params']):
                    if m[0] == 'sw':
                        to_key['switch__s%d_%d%s' % (i, j, tag)] = ['sw', i, j]
                    elif m[0] == 'oneof':
                        to_key['input_one_of__%d___%s' % (j, get_node_id(classes[i]))] = ['oo', i, j]
            before = real_graph(dag, to_key)
            st['evaluations'] += 1
            dist['profile:' + prof] += 1
            try:
                cfg = GraphConfigImpl(dag).generate(name='g', verbose_name='G').as_dict()
                text = json.dumps(cfg, ensure_ascii=False)
                cfg = json.loads(text)
            except Exception as e:  # noqa: BLE001
                probs.append('generating / serialising the description raised %s: %s' % (type(e).__name__, str(e)[:120]))
                cfg = None
            after = real_graph(dag, to_key)
            if before != after:
                probs.append('generating the description modified the DAG')
            if cfg is not None:
                key = lambda nid: to_key.get(nid, ['?', nid])  # noqa: E731
                ids = [nd['id'] for nd in cfg['nodes']]
                gnodes = list(dag.graph.nodes)
                if sorted(ids) != sorted(gnodes):
                    probs.append('node entries %s differ from the DAG nodes %s' % (sorted(set(ids) ^ set(gnodes))[:3], len(gnodes)))
                if len(ids) != len(set(ids)):
                    probs.append('a DAG node has more than one entry')
                for ent in cfg['nodes']:
                    k = key(ent['id'])
                    if k[0] == 'n':
                        d = info[k[1]]
                        dist['type:%s' % d['type']] += 1
                        if ent['is_virtual']:
                            probs.append('real node %s marked virtual' % ent['id'])
                        if ent['type'] != d['type']:
                            probs.append('node %s: type %r, declared %r' % (ent['id'], ent['type'], d['type']))
                        if not ent['data'] or ent['data']['name'] != d['name'] or ent['data']['verbose_name'] != d['verbose']:
                            probs.append('node %s: name/verbose_name %r, declared %r' % (ent['id'], ent['data'], (d['name'], d['verbose'])))
                        if d['doc'] and (not ent['data'] or ent['data']['doc'] != d['doc']):
                            probs.append('node %s: doc %r, declared %r' % (ent['id'], ent['data'] and ent['data']['doc'], d['doc']))
                        if ent['type'] is not None and ent['type'] not in cfg['node_types']:
                            probs.append('type %r of node %s is missing from the type table %s' % (ent['type'], ent['id'], sorted(cfg['node_types'])))
                    else:
                        want = 'switch' if k[0] == 'sw' else 'input_one_of' if k[0] == 'oo' else None
                        if not ent['is_virtual'] or ent['type'] != want or ent['data'] is not None:
                            probs.append('synthetic node %s described as %s' % (ent['id'], json.dumps(ent)[:100]))
                        if ent['type'] not in cfg['node_types']:
                            probs.append('type %r missing from the type table' % ent['type'])
                eids = [e['id'] for e in cfg['edges']]
                if len(eids) != len(set(eids)):
                    probs.append('edge ids are not unique')
                if sorted((e['source'], e['target']) for e in cfg['edges']) != sorted((u, v) for u, v in dag.graph.edges):
                    probs.append('edge entries differ from the DAG dependencies')
                for e in cfg['edges']:
                    if e['source'] not in ids or e['target'] not in ids:
                        probs.append('edge %s has a missing endpoint' % e['id'])
                for tname, tt in cfg['node_types'].items():
                    if tt['name'] != tname:
                        probs.append('type table key %r names %r' % (tname, tt['name']))
                # ---- K2 with the extracted model
                it = M.Interner()
                fields, _ = M.prog_fields(spec, it)
                infos = [[it.id(d['name']), it.id(d['verbose']), 'none' if d['type'] is None else it.id(d['type']),
                          'none' if d['doc'] is None else it.id(d['doc']), bool(d['generic'])] for d in info]
                res = model.ask(M.sx(['viewer', fields[0], ['infos'] + infos]))
                st['k2_compared'] += 1
                if 'driver_error' in res:
                    k2.append('driver: ' + res['driver_error'])
                else:
                    names = it.names

                    def mtype(t):
                        return names[t[1]] if isinstance(t, list) else t
                    mnodes = {json.dumps(kk): (v, g, mtype(t), None if dd is None else (names[dd[0]], names[dd[1]], None if dd[2] is None else names[dd[2]]))
                              for kk, v, g, t, dd in res['nodes']}
                    inodes = {}
                    for ent in cfg['nodes']:
                        k = key(ent['id'])
                        dd = ent['data']
                        declared_doc = info[k[1]]['doc'] if k[0] == 'n' else None
                        inodes[json.dumps(k)] = (ent['is_virtual'], ent['is_generic'], ent['type'],
                                                 None if dd is None else (dd['name'], dd['verbose_name'], dd['doc'] if declared_doc else None))
                    if mnodes != inodes:
                        bad = [kk for kk in set(mnodes) | set(inodes) if mnodes.get(kk) != inodes.get(kk)][:2]
                        k2.append('node entries differ: ' + '; '.join('%s impl=%s model=%s' % (kk, inodes.get(kk), mnodes.get(kk)) for kk in bad))
                    if sorted(json.dumps([key(e['source']), key(e['target'])]) for e in cfg['edges']) != sorted(json.dumps(e) for e in res['edges']):
                        k2.append('edge entries differ')
                    if sorted(cfg['node_types']) != sorted(mtype(t) for t in res['types']):
                        k2.append('type tables differ: impl=%s model=%s' % (sorted(cfg['node_types']), sorted(mtype(t) for t in res['types'])))
            kk = json.dumps([[nd['params'], nd['vtype'], nd['doc'], nd['generic']] for nd in spec['nodes']], sort_keys=True, ensure_ascii=False)
            if kk not in distinct and len(spec['nodes']) >= 3:
                distinct.add(kk)
            if k2:
                st['k2_disagree'] += 1
                if len(k2_broken) < 3:
                    k2_broken.append(dict(diffs=k2[:3], source=src))
            if probs:
                st['violations'] += 1
                if len(violations) < 3:
                    violations.append(dict(kind='property', problems=probs[:4], source=src))
            if len(samples) < 2:
                samples.append(dict(nodes=[[nd['params'], nd['vtype'], nd['generic']] for nd in spec['nodes']]))
            sys.modules.pop(mod, None)
    finally:
        shutil.rmtree(tmp, ignore_errors=True)
    model.close()
    print(json.dumps(dict(stats=dict(st), dist=dict(dist), violations=violations, k2_broken=k2_broken, known_hits={}, samples=samples,
                          distinct_nontrivial=len(distinct), wall=time.time() - t0,
                          rule='programs grown by harness/gen.py over all mark kinds, written out as a real Python module (the viewer reads source lines), '
                               'with declared node types (default, custom strings, NodeType members, None), docs on class or method, and nodes produced by '
                               'build_node (once or twice); the description is generated, serialised to JSON and checked clause by clause against the DAG '
                               'and against the extracted model; non-trivial = at least 3 nodes; distinct = distinct (declarations, types, docs, generic flags)'),
                     ensure_ascii=False))


if __name__ == '__main__':
    main()
