import asyncio, sys, os, random, typing as t, collections, json
sys.path.insert(0, os.path.dirname(os.path.abspath(__file__))); sys.path.insert(0, os.environ.get('REPO','/repo'))
from vloop_prototype import VLoop
from asyncio import events
import logging; logging.disable(logging.CRITICAL)
from ml_pipeline_engine.chart import PipelineChart
from ml_pipeline_engine.dag_builders.annotation import build_dag
from ml_pipeline_engine.dag_builders.annotation.marks import Input, RecurrentSubGraph
from ml_pipeline_engine.node import RecurrentProcessor
from ml_pipeline_engine.types import Recurrent
from ml_pipeline_engine.dag.errors import RecurrentSubgraphDoesNotHaveResultError
from random_probe import closure, marks_nodes as _mn, Fail, has_exc

def marks_nodes(mk): return [mk[2]] if mk[0] == 'rec' else _mn(mk)
def clos(nodes, i, acc=None):
    acc = set() if acc is None else acc
    if i in acc: return acc
    acc.add(i)
    for _, mk in nodes[i]['params']:
        for m in marks_nodes(mk): clos(nodes, m, acc)
    return acc
def gen(rng, n, p_fail=0.0):
    while True:
        nodes = [dict(params=[], beh='ok', dflt=False)]
        for i in range(1, n):
            k = rng.choice([1, 1, 2, 2, 3]); srcs = rng.sample(range(i), min(i, k))
            nodes.append(dict(params=[('p%d' % j, ('in', m)) for j, m in enumerate(srcs)], beh='fail' if rng.random() < p_fail else 'ok', dflt=False))
        out = n - 1
        cand_d = [d for d in range(1, n - 1) if d in clos(nodes, out)]
        if not cand_d: continue
        d = rng.choice(cand_d); anc = sorted(clos(nodes, d) - {d})
        s = rng.choice(anc); maxit = rng.choice([1, 2, 3]); k = rng.randint(0, maxit + 1)
        nodes[d]['beh'] = ('recur', k); nodes[d]['dflt'] = rng.random() < 0.5
        # turn consumers' Input(d) into the rec mark (at least one), randomly keep others as plain Input(d)
        live = clos(nodes, out)
        cons = [(i, j) for i in range(d + 1, n) if i in live for j, (pn, mk) in enumerate(nodes[i]['params']) if mk == ('in', d)]
        if not cons: continue
        first = True
        for (i, j) in cons:
            if first or rng.random() < 0.5:
                pn = nodes[i]['params'][j][0]; nodes[i]['params'][j] = (pn, ('rec', s, d, maxit)); first = False
        return nodes, (s, d, maxit, k)

def path_nodes(nodes, s, d):
    # nodes on a dependency path s -> d
    desc = {s}
    for i in range(s + 1, len(nodes)):
        if any(m in desc for _, mk in nodes[i]['params'] for m in marks_nodes(mk)): desc.add(i)
    return desc & clos(nodes, d)
def find_epoch(v):
    best = 0
    if isinstance(v, (tuple, list)):
        if len(v) == 2 and v[0] == 'additional_data' and isinstance(v[1], int): best = max(best, v[1])
        for x in v: best = max(best, find_epoch(x))
    elif isinstance(v, dict):
        for kk, x in v.items():
            if kk == 'additional_data' and isinstance(x, int): best = max(best, x)
            best = max(best, find_epoch(x))
    return best

def ref(nodes, rec):
    s, d, maxit, k = rec; memo = {}; ad = {}; counts = collections.Counter(); P = path_nodes(nodes, s, d)
    def raw(i):
        if i in memo: return memo[i]
        nd = nodes[i]; args = {'x': 1} if i == 0 else {}; failed = None
        for pn, mk in nd['params']:
            r = resolved(mk[2] if mk[0] == 'rec' else mk[1])
            if r[0] == 'fail': failed = (failed or set()) | r[1]
            else: args[pn] = r[1]
        if i in ad: args['additional_data'] = ad[i]
        if failed: res = ('fail', failed)
        else:
            counts[i] += 1
            if nd['beh'] == 'fail': res = ('fail', {i})
            elif isinstance(nd['beh'], tuple) and find_epoch(args) < nd['beh'][1]: res = ('rec', find_epoch(args) + 1, args)
            else: res = ('ok', ('v', i, tuple(sorted(args.items()))))
        memo[i] = res; return res
    def resolved(i):
        r = raw(i)
        if r[0] != 'rec': return r
        for it in range(maxit):
            ad[s] = r[1]
            for j in P: memo.pop(j, None)
            r = raw(d)
            if r[0] != 'rec': break
        if r[0] == 'rec':
            r = ('ok', ('default', d)) if nodes[d]['dflt'] else ('fail', {'rec'})
            memo[d] = r
        return r
    return resolved(len(nodes) - 1), counts, P

def materialize(nodes, rec, tag):
    s, d, maxit, k = rec; classes = []; LOG = []; GATES = []
    for i, nd in enumerate(nodes):
        def mk(i=i, nd=nd):
            async def process(self, **kwargs):
                kwargs = {str(kk.value if hasattr(kk, 'value') else kk): v for kk, v in kwargs.items()}
                LOG.append(('start', i, kwargs))
                f = asyncio.get_running_loop().create_future(); GATES.append((i, f)); await f
                b = nd['beh']
                if b == 'fail': raise Fail(i)
                if isinstance(b, tuple) and find_epoch(kwargs) < b[1]: return self.next_iteration(find_epoch(kwargs) + 1)
                return ('v', i, tuple(sorted(kwargs.items())))
            def get_default(self, **kwargs): return ('default', i)
            ann = {}
            for pn, m in nd['params']:
                ann[pn] = Input(classes[m[1]]) if m[0] == 'in' else RecurrentSubGraph(start_node=classes[m[1]], dest_node=classes[m[2]], max_iterations=m[3])
            if i == s: ann['additional_data'] = t.Any
            process.__annotations__ = ann
            return type('N%d' % i, (RecurrentProcessor,), {'process': process, 'get_default': get_default, 'use_default': nd['dflt'], 'name': 'n%d_%s' % (i, tag)})
        classes.append(mk())
    return classes, LOG, GATES

def run_once(nodes, rec, rng, tag):
    classes, LOG, GATES = materialize(nodes, rec, tag)
    chart = PipelineChart('m', build_dag(input_node=classes[0], output_node=classes[-1]))
    loop = VLoop(); events._set_running_loop(loop); sched = []
    try:
        main = loop.create_task(chart.run(input_kwargs={'x': 1}), name='MAIN'); n = 0
        while not main.done():
            n += 1
            if n > 50000: return ('STEPLIMIT',), LOG, sched
            if loop.ready: loop.step(); continue
            pend = [(i, f) for i, f in GATES if not f.done()]
            if not pend: return ('DEADLOCK',), LOG, sched
            i, f = rng.choice(pend); sched.append(i); f.set_result(None)
        k = 0
        while loop.ready and k < 2000: loop.step(); k += 1
        if main.cancelled(): return ('CANCELLED',), LOG, sched
        if main.exception() is not None: return ('RAISED', type(main.exception()).__name__), LOG, sched
        r = main.result()
        return (('ok', r.value) if r.error is None else ('err', r.error)), LOG, sched
    finally: events._set_running_loop(None)

def check(nodes, rec, rng, tag):
    exp, counts, P = ref(nodes, rec); got, LOG, sched = run_once(nodes, rec, rng, tag); probs = []
    starts = collections.Counter(i for _, i, _ in LOG)
    if got[0] in ('DEADLOCK', 'STEPLIMIT', 'CANCELLED', 'RAISED'): probs.append(got[0] if got[0] != 'RAISED' else 'RAISED-' + got[1])
    elif got[0] == 'ok':
        if exp[0] != 'ok': probs.append('value-but-ref-fails')
        elif got[1] != exp[1]: probs.append('wrong-value')
    else:
        e = got[1]
        if exp[0] == 'ok': probs.append('error-but-ref-ok:' + type(e).__name__)
        elif isinstance(e, Fail): probs += [] if e.args[0] in exp[1] else ['wrong-root-cause']
        elif isinstance(e, RecurrentSubgraphDoesNotHaveResultError): probs += [] if 'rec' in exp[1] else ['rec-error-unexpected']
        else: probs.append('internal-error:' + type(e).__name__)
    if exp[0] == 'ok' and got[0] == 'ok' and dict(starts) != dict(counts): probs.append('exec-count-differs')
    def bad(v): return v is None or isinstance(v, Recurrent) or has_exc(v)
    if any(bad(v) for _, _, kw in LOG for v in kw.values()): probs.append('None/Rec/exc-as-arg')
    return probs, got, exp, sched, starts, counts

def feats(nodes, rec):
    s, d, maxit, k = rec; P = path_nodes(nodes, s, d); f = set()
    live = clos(nodes, len(nodes) - 1)
    for i in live - P:
        for _, mk in nodes[i]['params']:
            if mk[0] == 'in' and mk[1] in P and mk[1] != d: f.add('outside-reader')
            if mk[0] == 'in' and mk[1] == d: f.add('plain-consumer-of-dest')
    ncons = sum(1 for i in live for _, mk in nodes[i]['params'] if marks_nodes(mk)[0] == d)
    if ncons > 1: f.add('multi-consumer')
    if s == 0: f.add('start=input')
    return f

if __name__ == '__main__':
    seed = int(sys.argv[1]); N = int(sys.argv[2]); kw = json.loads(sys.argv[3]) if len(sys.argv) > 3 else {}
    rng = random.Random(seed); stats = collections.Counter(); examples = {}
    for c in range(N):
        nodes, rec = gen(rng, rng.randint(4, 8), **kw)
        fk = ','.join(sorted(feats(nodes, rec) - {'start=input'})) or 'closed'
        for sidx in range(3):
            try: probs, got, exp, sched, starts, counts = check(nodes, rec, rng, '%d_%d_%d' % (seed, c, sidx))
            except Exception as e:
                import traceback; probs, got, exp, sched, starts, counts = (['harness:' + type(e).__name__ + str(e)[:80]], None, None, None, None, None)
            stats['runs'] += 1; stats['runs[' + fk + ']'] += 1
            if not probs: stats['clean'] += 1
            else: stats['bad[' + fk + ']'] += 1
            for p in probs:
                stats[p + '[' + fk + ']'] += 1; key = p + '[' + fk + ']'
                if key not in examples or len(nodes) < len(examples[key][0]): examples[key] = (nodes, rec, got, exp, sched, starts, counts)
    for kk, vv in sorted(stats.items()): print('  %-70s %d' % (kk, vv))
    for p, (nodes, rec, got, exp, sched, starts, counts) in examples.items():
        print('==', p, 'rec(s,d,max,k)=', rec, 'got', str(got)[:160], '\n   exp', str(exp)[:160], 'sched', sched, 'starts', dict(starts or {}), 'ref', dict(counts or {}))
        for i, nd in enumerate(nodes): print('   n%d' % i, nd['beh'], 'dflt' if nd['dflt'] else '', nd['params'])
