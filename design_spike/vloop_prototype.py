import asyncio, collections, heapq, os, sys, typing as t, contextvars
from asyncio import events, futures, tasks
sys.path.insert(0, os.environ.get('REPO', '/repo'))

class VLoop(asyncio.AbstractEventLoop):
    def __init__(self):
        self.ready = collections.deque(); self.timers = []; self.now = 0.0; self.seq = 0
        self.exc = []; self._closed = False
    def get_debug(self): return False
    def time(self): return self.now
    def is_running(self): return True
    def is_closed(self): return self._closed
    def call_soon(self, cb, *args, context=None):
        h = events.Handle(cb, args, self, context); self.ready.append(h); return h
    call_soon_threadsafe = call_soon
    def call_later(self, d, cb, *args, context=None): return self.call_at(self.now + d, cb, *args, context=context)
    def call_at(self, when, cb, *args, context=None):
        h = events.TimerHandle(when, cb, args, self, context); self.seq += 1
        heapq.heappush(self.timers, (when, self.seq, h)); return h
    def _timer_handle_cancelled(self, h): pass
    def create_future(self): return futures.Future(loop=self)
    def create_task(self, coro, *, name=None, context=None):
        return tasks.Task(coro, loop=self, name=name, context=context)
    def call_exception_handler(self, ctx): self.exc.append(ctx)
    def run_in_executor(self, executor, fn, *args):
        return futures.wrap_future(executor.submit(fn, *args), loop=self)
    # driving
    def step(self):
        h = self.ready.popleft()
        if not h._cancelled: h._run()
    def fire_timer(self):
        when, _, h = heapq.heappop(self.timers); self.now = max(self.now, when)
        if not h._cancelled: self.ready.append(h)
    def live_timers(self): return [x for x in self.timers if not x[2]._cancelled]

def drive(loop, main_coro, schedule_fn, max_steps=100000):
    events._set_running_loop(loop)
    try:
        main = loop.create_task(main_coro, name='MAIN')
        n = 0
        while not main.done():
            n += 1
            if n > max_steps: return ('STEP-LIMIT', None)
            if loop.ready: loop.step(); continue
            if schedule_fn(loop): continue     # completes a gate or fires a timer
            return ('DEADLOCK', n)
        # drain leftovers
        k = 0
        while loop.ready and k < 1000: loop.step(); k += 1
        left = [t_.get_name() for t_ in asyncio.all_tasks(loop) if not t_.done()]
        if main.cancelled(): return ('CANCELLED', left)
        if main.exception(): return ('RAISED', repr(main.exception()), left)
        return ('OK', main.result(), left, n)
    finally:
        events._set_running_loop(None)

if __name__ == '__main__':
    from ml_pipeline_engine.chart import PipelineChart
    from ml_pipeline_engine.dag_builders.annotation import build_dag
    from ml_pipeline_engine.dag_builders.annotation.marks import Input, InputOneOf, SwitchCase, RecurrentSubGraph
    from ml_pipeline_engine.node import ProcessorBase, RecurrentProcessor
    import itertools
    GATES = {}; LOG = []
    async def gate(name):
        f = asyncio.get_running_loop().create_future(); GATES[name] = f; LOG.append(('start', name)); await f; LOG.append(('end', name))
    class In(ProcessorBase):
        async def process(self, x: int) -> int: await gate('In'); return x
    class A(ProcessorBase):
        async def process(self, a: Input(In)) -> int: await gate('A'); return a + 1
    class B(ProcessorBase):
        async def process(self, a: Input(In)) -> int: await gate('B'); return a * 10
    class Out(ProcessorBase):
        async def process(self, a: Input(A), b: Input(B)) -> int: await gate('Out'); return a + b
    class Sw(ProcessorBase):
        async def process(self, a: Input(In)) -> str: await gate('Sw'); return 'zzz'
    class OutSw(ProcessorBase):
        async def process(self, v: SwitchCase(switch=Sw, cases=[('k', A)])) -> int: return v
    def run(out, order):
        GATES.clear(); LOG.clear(); order = list(order)
        def sched(loop):
            for g in order:
                if g in GATES and not GATES[g].done(): GATES[g].set_result(None); order.remove(g); return True
            pend = [g for g, f in GATES.items() if not f.done()]
            if pend: GATES[pend[0]].set_result(None); return True
            if loop.live_timers(): loop.fire_timer(); return True
            return False
        chart = PipelineChart('m', build_dag(input_node=In, output_node=out))
        r = drive(VLoop(), chart.run(input_kwargs=dict(x=1)), sched)
        return r, list(LOG)
    for order in (['In','A','B','Out'], ['In','B','A','Out']):
        print(run(Out, order))
    print(run(OutSw, ['In','Sw']))
