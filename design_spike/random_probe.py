import asyncio, sys, random, typing as t, collections, json, itertools
import os; sys.path.insert(0, os.path.dirname(os.path.abspath(__file__))); sys.path.insert(0, os.environ.get('REPO','/repo'))
from vloop_prototype import VLoop
from asyncio import events
import logging; logging.disable(logging.CRITICAL)
from ml_pipeline_engine.chart import PipelineChart
from ml_pipeline_engine.dag_builders.annotation import build_dag
from ml_pipeline_engine.dag_builders.annotation.marks import Input, InputOneOf, SwitchCase
from ml_pipeline_engine.node import ProcessorBase
from ml_pipeline_engine.dag.errors import OneOfDoesNotHaveResultError

# spec: list of nodes; node = dict(params=[(pname, mark)], beh='ok'|'fail'|'none'|('label', l))
# mark = ('in', m) | ('sw', d, [(label, m)...]) | ('oneof', [m...])
def gen(rng, n, p_sw=0.2, p_oneof=0.25, p_fail=0.15, p_none=0.05, p_unknown=0.0, excl=0):
    nodes = [dict(params=[], beh='ok')]; candset = set(); refd = set()
    for i in range(1, n):
        params = []
        for k in range(rng.choice([1, 1, 2, 2, 3])):
            r = rng.random(); pn = 'p%d' % k
            used = {m for _, mk in params for m in marks_nodes(mk)}
            cands = [m for m in range(i) if m not in used and not (excl and m in candset)] or None
            if cands is None: break
            nz = [m for m in cands if m != 0]
            if r < p_sw:
                if i >= 3 and nz:
                    d = rng.choice(nz); pool = [m for m in range(1, i) if m != d and not (excl and m in candset)]; cs = rng.sample(pool, min(len(pool), rng.choice([1, 2, 3])))
                    if cs: params.append((pn, ('sw', d, [('L%d' % j, m) for j, m in enumerate(cs)])))
                    else: params.append((pn, ('in', rng.choice(cands))))
                else: params.append((pn, ('in', rng.choice(cands))))
            elif r < p_sw + p_oneof:
                nz2 = [m for m in nz if not (excl and m in refd)]
                cs = rng.sample(nz2, min(len(nz2), rng.choice([2, 2, 3])))
                if len(cs) >= 2: params.append((pn, ('oneof', cs))); candset.update(cs)
                else: params.append((pn, ('in', rng.choice(cands))))
            else:
                params.append((pn, ('in', rng.choice(cands))))
        for _, mk in params: refd.update(marks_nodes(mk))
        r = rng.random()
        beh = 'fail' if r < p_fail else ('none' if r < p_fail + p_none else 'ok')
        nodes.append(dict(params=params, beh=beh))
    # deciders return a label
    for nd in nodes:
        for _, mk in nd['params']:
            if mk[0] == 'sw':
                labels = [l for l, _ in mk[2]]
                if nodes[mk[1]]['beh'] in ('ok', 'none') or isinstance(nodes[mk[1]]['beh'], tuple):
                    nodes[mk[1]]['beh'] = ('label', 'UNKNOWN' if rng.random() < p_unknown else rng.choice(labels))
    return nodes
def marks_nodes(mk):
    if mk[0] == 'in': return [mk[1]]
    if mk[0] == 'sw': return [mk[1]] + [m for _, m in mk[2]]
    return list(mk[1])

class Fail(Exception): pass
def ref(nodes, out):
    memo = {}; demanded = set()
    def ev(i):
        if i in memo: return memo[i]
        demanded.add(i); nd = nodes[i]; args = {'x': 1} if i == 0 else {}; failed = None
        for pn, mk in nd['params']:
            if mk[0] == 'in': r = ev(mk[1])
            elif mk[0] == 'sw':
                r = ev(mk[1])
                if r[0] == 'ok':
                    case = dict(mk[2]).get(r[1])
                    r = ('fail', {'nolabel'}) if case is None else ev(case)
            else:
                r = None
                for c in mk[1]:
                    r = ev(c)
                    if r[0] == 'ok': break
                else: r = ('fail', {'oneof'})
            if r[0] == 'fail': failed = (failed or set()) | r[1]
            else: args[pn] = r[1]
        if failed: res = ('fail', failed)
        elif nd['beh'] == 'fail': res = ('fail', {i})
        elif nd['beh'] == 'none': res = ('ok', None)
        elif isinstance(nd['beh'], tuple): res = ('ok', nd['beh'][1])
        else: res = ('ok', ('v', i, tuple(sorted(args.items()))))
        memo[i] = res; return res
    return ev(out), demanded

def has_exc(v):
    if isinstance(v, BaseException): return True
    if isinstance(v, (tuple, list)): return any(has_exc(x) for x in v)
    return False

def materialize(nodes, tag):
    classes = []; LOG = []; GATES = []
    for i, nd in enumerate(nodes):
        def mk(i=i, nd=nd):
            async def process(self, **kwargs):
                LOG.append(('start', i, kwargs))
                f = asyncio.get_running_loop().create_future(); GATES.append((i, f)); await f
                b = nd['beh']
                if b == 'fail': raise Fail(i)
                if b == 'none': return None
                if isinstance(b, tuple): return b[1]
                return ('v', i, tuple(sorted(kwargs.items())))
            ann = {}
            for pn, m in nd['params']:
                if m[0] == 'in': ann[pn] = Input(classes[m[1]])
                elif m[0] == 'sw': ann[pn] = SwitchCase(switch=classes[m[1]], cases=[(l, classes[c]) for l, c in m[2]], name='s%d_%s_%s' % (i, pn, tag))
                else: ann[pn] = InputOneOf([classes[c] for c in m[1]])
            process.__annotations__ = ann
            return type('N%d' % i, (ProcessorBase,), {'process': process, 'name': 'n%d_%s' % (i, tag)})
        classes.append(mk())
    return classes, LOG, GATES

def run_once(nodes, rng, tag):
    classes, LOG, GATES = materialize(nodes, tag)
    chart = PipelineChart('m', build_dag(input_node=classes[0], output_node=classes[-1]))
    loop = VLoop(); events._set_running_loop(loop); sched = []
    try:
        main = loop.create_task(chart.run(input_kwargs={'x': 1}), name='MAIN'); n = 0
        while not main.done():
            n += 1
            if n > 20000: return ('STEPLIMIT',), LOG, sched
            if loop.ready: loop.step(); continue
            pend = [(i, f) for i, f in GATES if not f.done()]
            if not pend: return ('DEADLOCK',), LOG, sched
            i, f = rng.choice(pend); sched.append(i); f.set_result(None)
        k = 0
        while loop.ready and k < 2000: loop.step(); k += 1
        if main.cancelled(): return ('CANCELLED',), LOG, sched
        if main.exception() is not None: return ('RAISED', type(main.exception()).__name__), LOG, sched
        r = main.result()
        return (('ok', r.value) if r.error is None else ('err', r.error)), LOG, sched
    finally: events._set_running_loop(None)

def check(nodes, rng, tag):
    (exp, demanded) = ref(nodes, len(nodes) - 1)
    got, LOG, sched = run_once(nodes, rng, tag)
    probs = []
    starts = collections.Counter(i for _, i, _ in LOG)
    if got[0] in ('DEADLOCK', 'STEPLIMIT', 'CANCELLED', 'RAISED'): probs.append(got[0] if got[0] != 'RAISED' else 'RAISED-' + got[1])
    elif got[0] == 'ok':
        if exp[0] != 'ok': probs.append('value-but-ref-fails')
        elif got[1] != exp[1]: probs.append('wrong-value')
    else:
        e = got[1]
        if exp[0] == 'ok': probs.append('error-but-ref-ok:' + type(e).__name__)
        elif isinstance(e, Fail):
            if e.args[0] not in exp[1]: probs.append('wrong-root-cause')
        elif isinstance(e, OneOfDoesNotHaveResultError):
            if 'oneof' not in exp[1]: probs.append('oneof-error-unexpected')
        else: probs.append('internal-error:' + type(e).__name__)
    if any(c > 1 for c in starts.values()): probs.append('double-exec')
    if any(has_exc(v) for _, _, kw in LOG for v in kw.values()): probs.append('exc-as-arg')
    if not set(starts) <= demanded: probs.append('not-demanded-executed')
    return probs, got, exp, sched

def closure(nodes, i, acc=None):
    acc = set() if acc is None else acc
    if i in acc: return acc
    acc.add(i)
    for _, mk in nodes[i]['params']:
        for m in marks_nodes(mk): closure(nodes, m, acc)
    return acc
def feats(nodes):
    f = set(); out = len(nodes) - 1; live = closure(nodes, out)
    for i in live:
        for _, mk in nodes[i]['params']:
            if mk[0] == 'oneof':
                f.add('oneof')
                for c in mk[1]:
                    cl = closure(nodes, c)
                    if any(m2[0] == 'sw' for j in cl for _, m2 in nodes[j]['params']): f.add('sw-in-oneof')
                    if any(m2[0] == 'oneof' for j in cl for _, m2 in nodes[j]['params']): f.add('nested-oneof')
            if mk[0] == 'sw':
                f.add('sw')
                for _, c in mk[2]:
                    cl = closure(nodes, c)
                    if any(m2[0] == 'oneof' for j in cl for _, m2 in nodes[j]['params']): f.add('oneof-in-sw')
    return f

if __name__ == '__main__':
    seed = int(sys.argv[1]); N = int(sys.argv[2]); kw = json.loads(sys.argv[3]) if len(sys.argv) > 3 else {}
    rng = random.Random(seed); stats = collections.Counter(); examples = {}
    for c in range(N):
        nodes = gen(rng, rng.randint(3, 9), **kw)
        for s in range(3):
            try: probs, got, exp, sched = check(nodes, rng, '%d_%d_%d' % (seed, c, s))
            except Exception as e: probs, got, exp, sched = (['harness:' + type(e).__name__ + str(e)[:60]], None, None, None)
            probs = [p for p in probs if not p.startswith('internal-error:SwitchCase')]
            fk = ','.join(sorted(feats(nodes) & {'sw-in-oneof','oneof-in-sw','nested-oneof'})) or 'flat'
            stats['runs'] += 1; stats['runs[' + fk + ']'] += 1
            if not probs: stats['clean'] += 1
            else: stats['bad[' + fk + ']'] += 1
            for p in probs:
                stats[p] += 1
                key = p + '[' + fk + ']'
                if key not in examples or len(nodes) < len(examples[key][0]): examples[key] = (nodes, got, exp, sched)
    print(json.dumps(dict(sorted(stats.items())), indent=0).replace('\n', ' '))
    for p, (nodes, got, exp, sched) in examples.items():
        print('==', p, 'got', str(got)[:100], 'exp', str(exp)[:100], 'sched', sched)
        for i, nd in enumerate(nodes): print('   n%d' % i, nd['beh'], nd['params'])
