From Coq Require Import List Arith Bool Lia.
Import ListNotations.
Require Import Mini.

Section Proofs.
Variable P : prog.
Hypothesis graph_ok : forall n m, In n (preds P m) <-> In m (succs P n).

Definition cond_of (p : pred) : cond := match p with PReady n => CNode n | PHas n => CNode n | PRun => CRun end.

Definition Inv (st : state) : Prop :=
  forall t c p k, lookup t (tasks st) = Some (TWaitCond c p k) ->
    eval_pred P st p = false /\ c = cond_of p /\ (forall n, p = PHas n -> n = dest P).

Lemma cond_eqb_eq a b : cond_eqb a b = true <-> a = b.
Proof. destruct a, b; simpl; try rewrite Nat.eqb_eq; split; intros H; try congruence; try discriminate; inversion H; auto. Qed.

Lemma lookup_update_eq {A} k (v : A) l : lookup k (update k v l) = Some v.
Proof. induction l as [|[k' v'] r IH]; simpl; [rewrite Nat.eqb_refl; auto|].
  destruct (Nat.eqb k k') eqn:E; simpl; [rewrite Nat.eqb_refl; auto | rewrite E; auto]. Qed.
Lemma lookup_update_neq {A} k k' (v : A) l : k <> k' -> lookup k' (update k v l) = lookup k' l.
Proof. intros Hn; induction l as [|[k2 v2] r IH]; simpl.
  - destruct (Nat.eqb k' k) eqn:E; auto. apply Nat.eqb_eq in E; congruence.
  - destruct (Nat.eqb k k2) eqn:E; simpl.
    + apply Nat.eqb_eq in E; subst. destruct (Nat.eqb k' k2) eqn:E2; auto. apply Nat.eqb_eq in E2; congruence.
    + destruct (Nat.eqb k' k2); auto. Qed.
Lemma lookup_map {A B} (f : A -> B) k l : lookup k (map (fun x => (fst x, f (snd x))) l) = option_map f (lookup k l).
Proof. induction l as [|[k' v] r IH]; simpl; auto. destruct (Nat.eqb k k'); auto. Qed.

(* predicates only depend on res and on which tasks are TDone RExc *)
Definition same_obs (a b : state) : Prop := res a = res b /\ any_error a = any_error b.
Lemma eval_pred_same a b p : same_obs a b -> eval_pred P a p = eval_pred P b p.
Proof. intros [Hr He]. unfold eval_pred, has_res. destruct p; rewrite ?Hr, ?He; auto. Qed.

Lemma any_error_map_wake c (l : list (tid * tstate)) :
  existsb (fun p : tid * tstate => is_exc (snd p)) (map (fun x => (fst x, wake1 c (snd x))) l) = existsb (fun p => is_exc (snd p)) l.
Proof. induction l as [|[t ts] r IH]; simpl; auto. rewrite IH. f_equal.
  destruct ts; simpl; auto. destruct (cond_eqb c c0); auto. Qed.

Lemma notify_obs st c : same_obs (notify st c) st.
Proof. split; simpl; auto. unfold any_error; simpl. apply any_error_map_wake. Qed.

Lemma notify_lookup st c t : lookup t (tasks (notify st c)) = option_map (wake1 c) (lookup t (tasks st)).
Proof. simpl. apply lookup_map. Qed.

(* weak invariant preserved by notify; and no one waits on c afterwards *)
Lemma notify_inv st c : Inv st -> Inv (notify st c).
Proof. intros H t c' p k Hl. rewrite notify_lookup in Hl.
  destruct (lookup t (tasks st)) as [ts|] eqn:E; simpl in Hl; [|discriminate].
  destruct ts; simpl in Hl; try discriminate.
  - destruct (cond_eqb c c0); try discriminate. injection Hl as -> -> ->.
    destruct (H _ _ _ _ E) as (A & B & C). rewrite (eval_pred_same _ _ _ (notify_obs st c)). auto.
Qed.
Lemma notify_nowait st c t p k : lookup t (tasks (notify st c)) <> Some (TWaitCond c p k).
Proof. rewrite notify_lookup. destruct (lookup t (tasks st)) as [ts|]; simpl; [|discriminate].
  destruct ts; simpl; try discriminate. destruct (cond_eqb c c0) eqn:E; try discriminate.
  intros H; injection H as -> -> ->. assert (cond_eqb c c = true) by (apply cond_eqb_eq; auto). congruence. Qed.

(* "Inv except possibly waiters on conditions in cs" *)
Definition InvX (cs : list cond) (st : state) : Prop :=
  forall t c p k, lookup t (tasks st) = Some (TWaitCond c p k) ->
    c = cond_of p /\ (forall n, p = PHas n -> n = dest P) /\ (~ In c cs -> eval_pred P st p = false).

Lemma notify_invx st c cs : InvX (c :: cs) st -> InvX cs (notify st c).
Proof. intros H t c' p k Hl. pose proof (notify_nowait st c t p k) as Hn.
  rewrite notify_lookup in Hl.
  destruct (lookup t (tasks st)) as [ts|] eqn:E; simpl in Hl; [|discriminate].
  destruct ts; simpl in Hl; try discriminate.
  destruct (cond_eqb c c0) eqn:Ec; try discriminate. injection Hl as -> -> ->.
  destruct (H _ _ _ _ E) as (A & B & C). repeat split; auto.
  intros Hnin. rewrite (eval_pred_same _ _ _ (notify_obs st c)). apply C. intros [<-|Hin]; auto.
  assert (cond_eqb c c = true) by (apply cond_eqb_eq; auto). congruence. Qed.

Lemma notify_invx_keep st c cs : InvX cs st -> InvX cs (notify st c).
Proof. intros H. apply notify_invx. intros t c' p k Hl. destruct (H _ _ _ _ Hl) as (A & B & C).
  repeat split; auto. intros Hn. apply C. intros Hin. apply Hn. right; auto. Qed.

Lemma fold_notify_invx l : forall st cs, InvX (map CNode l ++ cs) st -> InvX cs (fold_left (fun st m => notify st (CNode m)) l st).
Proof. induction l as [|m r IH]; simpl; intros st cs H; auto. apply IH. apply notify_invx. exact H. Qed.


(* monotone observation: new state makes no predicate true that was false *)
Definition pred_le (a b : state) : Prop := forall p, eval_pred P a p = true -> eval_pred P b p = true.

Lemma any_error_update t ts l :
  is_exc ts = false -> existsb (fun p : tid * tstate => is_exc (snd p)) (update t ts l) = true ->
  existsb (fun p : tid * tstate => is_exc (snd p)) l = true.
Proof. intros Hn. induction l as [|[t' ts'] r IH]; simpl.
  - rewrite Hn; auto.
  - destruct (Nat.eqb t t'); simpl; [rewrite Hn; simpl; intros ->; apply orb_true_r|].
    intros H; apply orb_true_iff in H as [H|H]; [rewrite H; auto | rewrite (IH H); apply orb_true_r]. Qed.

Lemma pred_le_tasks st ts' t ts :
  is_exc ts = false ->
  pred_le {| res := res st; tasks := update t ts (tasks st); ready := ts'; started := started st |} st.
Proof. intros Hn p. unfold eval_pred, has_res, any_error; simpl. destruct p; auto.
  intros H; apply orb_true_iff in H as [H|H]; [|rewrite H; apply orb_true_r].
  rewrite (any_error_update _ _ _ Hn H); auto. Qed.

Lemma inv_update_nowait st rd t ts :
  Inv st -> is_exc ts = false -> (forall c p k, ts <> TWaitCond c p k) ->
  Inv {| res := res st; tasks := update t ts (tasks st); ready := rd; started := started st |}.
Proof. intros H Hn Hw t' c p k Hl. simpl in Hl.
  destruct (Nat.eq_dec t t') as [->|Hne].
  - rewrite lookup_update_eq in Hl. injection Hl as ->. exfalso; eapply Hw; eauto.
  - rewrite lookup_update_neq in Hl by auto. destruct (H _ _ _ _ Hl) as (A & B & C). repeat split; auto.
    match goal with |- ?x = false => destruct x eqn:E; auto end. apply (pred_le_tasks st rd t ts Hn) in E. congruence. Qed.

Lemma inv_ready st rd : Inv st -> Inv {| res := res st; tasks := tasks st; ready := rd; started := started st |}.
Proof. intros H t c p k Hl. apply (H t c p k Hl). Qed.
Lemma inv_started st x : Inv st -> Inv {| res := res st; tasks := tasks st; ready := ready st; started := x |}.
Proof. intros H t c p k Hl. apply (H t c p k Hl). Qed.

Lemma inv_spawn st t k : Inv st -> Inv (spawn st t k).
Proof. intros H. unfold spawn. apply inv_update_nowait; auto. discriminate. Qed.
Lemma inv_set_done st t : Inv st -> Inv (set_task st t (TDone ROk)).
Proof. intros H. unfold set_task. apply inv_update_nowait; auto. discriminate. Qed.

Lemma inv_wait_for st t c p k :
  Inv st -> c = cond_of p -> (forall n, p = PHas n -> n = dest P) ->
  Inv (wait_for P st t c p k (fun st => set_task st t (TDone ROk))).
Proof. intros H Hc Hd. unfold wait_for. destruct (eval_pred P st p) eqn:E; [apply inv_set_done; auto|].
  intros t' c' p' k' Hl. unfold set_task in Hl; simpl in Hl.
  assert (Hle : forall q, eval_pred P (set_task st t (TWaitCond c p k)) q = true -> eval_pred P st q = true)
    by (intros q; apply (pred_le_tasks st (ready st) t (TWaitCond c p k)); auto).
  destruct (Nat.eq_dec t t') as [->|Hne].
  - rewrite lookup_update_eq in Hl. injection Hl as <- <- <-. repeat split; auto.
    match goal with |- ?x = false => destruct x eqn:E2; auto end. apply Hle in E2. congruence.
  - rewrite lookup_update_neq in Hl by auto. destruct (H _ _ _ _ Hl) as (A & B & C). repeat split; auto.
    match goal with |- ?x = false => destruct x eqn:E2; auto end. apply Hle in E2. congruence. Qed.

Lemma inv_launch l : forall i st, Inv st -> Inv (fst (launch_from P l i st)).
Proof. induction l as [|n r IH]; simpl; intros i st H; auto.
  destruct (forallb (has_res st) (preds P n)); simpl; auto. apply IH. apply inv_spawn; auto. Qed.
Lemma launch_blocked l : forall i st j, snd (launch_from P l i st) = Some j ->
  eval_pred P (fst (launch_from P l i st)) (PReady (nth (j - i) l 0)) = false /\ i <= j.
Proof. induction l as [|n r IH]; simpl; intros i st j H; [discriminate|].
  destruct (forallb (has_res st) (preds P n)) eqn:E; simpl in *.
  - destruct (IH _ _ _ H) as [A B]. split; [|lia]. replace (j - i) with (S (j - S i)) by lia. auto.
  - injection H as <-. rewrite Nat.sub_diag. simpl. auto. Qed.


Lemma forallb_ext_in {A} (f g : A -> bool) l : (forall x, In x l -> f x = g x) -> forallb f l = forallb g l.
Proof. induction l as [|a r IH]; simpl; intros H; auto. rewrite H by auto. rewrite IH; auto. Qed.

Lemma nth_skipn' {A} (d : A) : forall i k l, nth k (skipn i l) d = nth (i + k) l d.
Proof. induction i as [|i IH]; simpl; intros k l; auto. destruct l; simpl; auto. destruct k; auto. Qed.

Lemma invx_nil st : InvX [] st -> Inv st.
Proof. intros H t c p k Hl. destruct (H _ _ _ _ Hl) as (A & B & C). repeat split; auto. Qed.

Lemma has_res_update st n v m rd tk sd : m <> n ->
  has_res {| res := update n v (res st); tasks := tk; ready := rd; started := sd |} m = has_res st m.
Proof. intros Hn. unfold has_res; simpl. rewrite lookup_update_neq; auto. Qed.

(* after storing n's result / marking the task finished, only waiters on succs n, CRun, CNode n (if dest) may have a true predicate *)
Lemma node_after_invx st t n (s : sig) r' :
  Inv st -> (forall c p k, lookup t (tasks st) <> Some (TWaitCond c p k)) ->
  let st1 := match s with
             | SVal => {| res := update n r' (res st); tasks := tasks st; ready := ready st; started := started st |}
             | _ => st end in
  InvX (map CNode (succs P n) ++ [CRun] ++ (if Nat.eqb n (dest P) then [CNode n] else []))
       (set_task st1 t (TDone (match s with SVal => ROk | _ => RExc end))).
Proof. intros H Hnw st1 t' c p k Hl. unfold set_task in Hl; simpl in Hl.
  destruct (Nat.eq_dec t t') as [->|Hne]; [rewrite lookup_update_eq in Hl; discriminate|].
  rewrite lookup_update_neq in Hl by auto.
  assert (Hl' : lookup t' (tasks st) = Some (TWaitCond c p k)) by (subst st1; destruct s; auto).
  destruct (H _ _ _ _ Hl') as (A & B & C). repeat split; auto. intros Hnin.
  destruct p as [m|m|]; simpl in B; subst c.
  - (* PReady m : n not a predecessor of m *)
    assert (Hm : ~ In n (preds P m)).
    { intros Hin. apply Hnin. apply in_or_app; left. apply in_map. apply graph_ok; auto. }
    unfold eval_pred in *. rewrite <- A. apply forallb_ext_in. intros x Hx.
    subst st1; destruct s; unfold set_task, has_res; simpl; auto.
    rewrite lookup_update_neq; auto. intros ->; auto.
  - (* PHas m, m = dest *)
    pose proof (C m eq_refl) as ->. unfold eval_pred in *.
    destruct (Nat.eqb n (dest P)) eqn:En.
    + exfalso. apply Hnin. apply in_or_app; right. simpl. right. left. apply Nat.eqb_eq in En. congruence.
    + subst st1; destruct s; unfold set_task, has_res in *; simpl; auto.
      rewrite lookup_update_neq; auto. intros ->. rewrite Nat.eqb_refl in En; discriminate.
  - exfalso. apply Hnin. apply in_or_app; right. simpl; auto.
Qed.


Theorem step_inv st c : Inv st -> Inv (step P st c).
Proof. intros H. destruct c as [|n ok]; simpl.
  - destruct (ready st) as [|t rd] eqn:Er; auto.
    destruct (lookup t (tasks st)) as [ts|] eqn:El; [|apply inv_ready; auto].
    destruct ts as [k s| | |]; try (apply inv_ready; auto).
    set (st' := {| res := res st; tasks := tasks st; ready := rd; started := started st |}).
    assert (H' : Inv st') by (apply inv_ready; auto).
    destruct k; simpl.
    + apply inv_wait_for; auto; [apply inv_spawn; auto | discriminate].
    + apply inv_wait_for; auto; discriminate.
    + pose proof (inv_launch (skipn i (ord P)) i st' H') as HL.
      pose proof (launch_blocked (skipn i (ord P)) i st') as HB.
      destruct (launch_from P (skipn i (ord P)) i st') as [st2 [j|]]; simpl in *.
      * destruct (HB j eq_refl) as [Hb Hij].
        intros t' c p k Hl. unfold set_task in Hl; simpl in Hl.
        assert (Hle : forall q, eval_pred P (set_task st2 t (TWaitCond (CNode (nth j (ord P) 0)) (PReady (nth j (ord P) 0)) (KLaunch j))) q = true -> eval_pred P st2 q = true)
          by (intros q; apply (pred_le_tasks st2 (ready st2) t); auto).
        destruct (Nat.eq_dec t t') as [->|Hne].
        -- rewrite lookup_update_eq in Hl. injection Hl as <- <- <-. repeat split; auto; [|discriminate].
           match goal with |- ?x = false => destruct x eqn:E2; auto end. apply Hle in E2.
           replace (nth j (ord P) 0) with (nth (j - i) (skipn i (ord P)) 0) in E2; [unfold eval_pred in *; congruence|].
           rewrite nth_skipn'. f_equal; lia.
        -- rewrite lookup_update_neq in Hl by auto. destruct (HL _ _ _ _ Hl) as (A & B & C). repeat split; auto.
           match goal with |- ?x = false => destruct x eqn:E2; auto end. apply Hle in E2. congruence.
      * apply inv_wait_for; auto. intros m Hm; injection Hm; auto.
    + apply inv_wait_for; auto. intros m Hm; injection Hm; auto.
    + unfold set_task; simpl.
      apply (inv_update_nowait {| res := res st; tasks := tasks st; ready := rd; started := n :: started st |} rd t); auto; try discriminate.
    + (* KNodeAfter *)
      pose proof (node_after_invx st' t n s (VOk n (map (fun m => match lookup m (res st') with Some v => v | None => VOk 0 [] end) (preds P n))) H') as HX.
      assert (Hnw : forall c p k0, lookup t (tasks st') <> Some (TWaitCond c p k0)) by (intros; simpl; rewrite El; discriminate).
      specialize (HX Hnw). cbv zeta in HX.
      apply fold_notify_invx in HX. apply notify_invx in HX.
      destruct (Nat.eqb n (dest P)).
      * apply notify_invx in HX. apply invx_nil; auto.
      * apply invx_nil; auto.
  - destruct (lookup (NT n) (tasks st)) as [ts|] eqn:El; auto. destruct ts; auto.
    apply inv_update_nowait; auto; destruct ok; auto; discriminate.
Qed.

Theorem reachable_inv cs : Inv (run P cs).
Proof. unfold run. assert (Hi : Inv init).
  { intros t c p k Hl. simpl in Hl. destruct (Nat.eqb t MAIN); discriminate. }
  revert Hi. generalize init. induction cs as [|c r IH]; simpl; intros st H; auto. apply IH. apply step_inv; auto. Qed.

End Proofs.
Print Assumptions reachable_inv.
