From Coq Require Import List Arith Bool Lia.
Import ListNotations.

Definition nid := nat. Definition tid := nat.
Inductive val := VOk (n : nid) (args : list val).
Inductive cond := CNode (n : nid) | CRun.
Inductive pred := PReady (n : nid) | PHas (n : nid) | PRun.
Inductive sig := SStart | SVal | SThrow | SWake.
Inductive kont := KMain0 | KMainWait | KLaunch (i : nat) | KLaunchFinal | KNode0 (n : nid) | KNodeAfter (n : nid).
Inductive tres := ROk | RExc.
Inductive tstate :=
| TReady (k : kont) (s : sig) | TWaitCond (c : cond) (p : pred) (k : kont)
| TWaitGate (k : kont) | TDone (r : tres).

Record prog := { ord : list nid; preds : nid -> list nid; succs : nid -> list nid; dest : nid }.

Definition cond_eqb (a b : cond) : bool :=
  match a, b with CNode x, CNode y => Nat.eqb x y | CRun, CRun => true | _, _ => false end.

Record state := { res : list (nid * val); tasks : list (tid * tstate); ready : list tid; started : list nid }.

Fixpoint lookup {A} (k : nat) (l : list (nat * A)) : option A :=
  match l with [] => None | (k', v) :: r => if Nat.eqb k k' then Some v else lookup k r end.
Fixpoint update {A} (k : nat) (v : A) (l : list (nat * A)) : list (nat * A) :=
  match l with [] => [(k, v)] | (k', v') :: r => if Nat.eqb k k' then (k, v) :: r else (k', v') :: update k v r end.

Definition has_res (st : state) (n : nid) : bool := match lookup n (res st) with Some _ => true | None => false end.
Definition is_exc (ts : tstate) : bool := match ts with TDone RExc => true | _ => false end.
Definition any_error (st : state) : bool := existsb (fun p => is_exc (snd p)) (tasks st).

Definition eval_pred (P : prog) (st : state) (p : pred) : bool :=
  match p with
  | PReady n => forallb (has_res st) (preds P n)
  | PHas n => has_res st n
  | PRun => any_error st || has_res st (dest P)
  end.

Definition MAIN : tid := 0. Definition LAUNCH : tid := 1. Definition NT (n : nid) : tid := 2 + n.

Definition set_task (st : state) (t : tid) (ts : tstate) : state :=
  {| res := res st; tasks := update t ts (tasks st); ready := ready st; started := started st |}.
Definition spawn (st : state) (t : tid) (k : kont) : state :=
  {| res := res st; tasks := update t (TReady k SStart) (tasks st); ready := ready st ++ [t]; started := started st |}.

(* notify_all: every task waiting on c becomes ready, in table order *)
Definition wake1 (c : cond) (ts : tstate) : tstate :=
  match ts with TWaitCond c' p k => if cond_eqb c c' then TReady k SWake else ts | _ => ts end.
Definition waits_on (c : cond) (ts : tstate) : bool :=
  match ts with TWaitCond c' _ _ => cond_eqb c c' | _ => false end.
Definition notify (st : state) (c : cond) : state :=
  {| res := res st; tasks := map (fun x => (fst x, wake1 c (snd x))) (tasks st);
     ready := ready st ++ map fst (filter (fun x => waits_on c (snd x)) (tasks st)); started := started st |}.

Definition wait_for (P : prog) (st : state) (t : tid) (c : cond) (p : pred) (k : kont) (kdone : state -> state) : state :=
  if eval_pred P st p then kdone st else set_task st t (TWaitCond c p k).

Fixpoint launch_from (P : prog) (l : list nid) (i : nat) (st : state) : state * option nat :=
  match l with
  | [] => (st, None)
  | n :: r => if eval_pred P st (PReady n) then launch_from P r (S i) (spawn st (NT n) (KNode0 n)) else (st, Some i)
  end.

Definition resume (P : prog) (st : state) (t : tid) (k : kont) (s : sig) : state :=
  match k with
  | KMain0 =>
      let st := spawn st LAUNCH (KLaunch 0) in
      wait_for P st t CRun PRun KMainWait (fun st => set_task st t (TDone ROk))
  | KMainWait => wait_for P st t CRun PRun KMainWait (fun st => set_task st t (TDone ROk))
  | KLaunch i =>
      match launch_from P (skipn i (ord P)) i st with
      | (st, Some j) => set_task st t (TWaitCond (CNode (nth j (ord P) 0)) (PReady (nth j (ord P) 0)) (KLaunch j))
      | (st, None) => wait_for P st t (CNode (dest P)) (PHas (dest P)) KLaunchFinal (fun st => set_task st t (TDone ROk))
      end
  | KLaunchFinal => wait_for P st t (CNode (dest P)) (PHas (dest P)) KLaunchFinal (fun st => set_task st t (TDone ROk))
  | KNode0 n =>
      let st := {| res := res st; tasks := tasks st; ready := ready st; started := n :: started st |} in
      set_task st t (TWaitGate (KNodeAfter n))
  | KNodeAfter n =>
      let st := match s with
                | SVal => {| res := update n (VOk n (map (fun m => match lookup m (res st) with Some v => v | None => VOk 0 [] end) (preds P n)))
                                          (res st); tasks := tasks st; ready := ready st; started := started st |}
                | _ => st end in
      let st := set_task st t (TDone (match s with SVal => ROk | _ => RExc end)) in
      let st := fold_left (fun st m => notify st (CNode m)) (succs P n) st in
      let st := notify st CRun in
      if Nat.eqb n (dest P) then notify st (CNode n) else st
  end.

Inductive choice := Step | Complete (n : nid) (ok : bool).

Definition step (P : prog) (st : state) (c : choice) : state :=
  match c with
  | Step =>
      match ready st with
      | [] => st
      | t :: r =>
          let st' := {| res := res st; tasks := tasks st; ready := r; started := started st |} in
          match lookup t (tasks st) with
          | Some (TReady k s) => resume P st' t k s
          | _ => st'
          end
      end
  | Complete n ok =>
      match lookup (NT n) (tasks st) with
      | Some (TWaitGate k) =>
          {| res := res st; tasks := update (NT n) (TReady k (if ok then SVal else SThrow)) (tasks st);
             ready := ready st ++ [NT n]; started := started st |}
      | _ => st
      end
  end.

Definition init : state := {| res := []; tasks := [(MAIN, TReady KMain0 SStart)]; ready := [MAIN]; started := [] |}.
Definition run (P : prog) (cs : list choice) : state := fold_left (step P) cs init.

(* rhombus 0 -> 1,2 -> 3 *)
Definition rh : prog := {| ord := [0;1;2;3];
  preds := fun n => match n with 1 => [0] | 2 => [0] | 3 => [1;2] | _ => [] end;
  succs := fun n => match n with 0 => [1;2] | 1 => [3] | 2 => [3] | _ => [] end; dest := 3 |}.
Definition sched := [Step;Step;Step;Complete 0 true;Step;Step;Step;Step;Step;Complete 2 true;Step;Step;Step;Complete 1 true;Step;Step;Step;Step;Complete 3 true;Step;Step;Step].
Eval vm_compute in (let s := run rh sched in (lookup MAIN (tasks s), ready s, rev (started s), length (res s))).
