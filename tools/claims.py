claim('C12', 'Coq proof (closed form of the retry loop by induction on remaining attempts) + extracted-model/implementation correspondence',
      'Theorems C12_closed_form / C12_invocations / C12_result / C12_refines_reference (Properties/C12.v): for every policy and every sequence of '
      'per-attempt outcomes the retry loop of the engine model equals its closed form and computes what the reference semantics prescribes. '
      'The loop model shares its decision function with the frame model of the run manager, which is compared with the real engine under random '
      'schedules (retry timers racing other completions) on every run, and the attempt log of the real engine is checked against the reference.',
      'Partial in one respect: the wall-clock length of asyncio.sleep is not exhibited (the virtual loop checks that a timer of exactly `delay` is armed between attempts).',
      design='4 (C12)')
claim('C18', 'Coq proof (refinement of the file store to a write-once map by induction over operation sequences) + differential run against the real store on a temp directory',
      'Theorems C18_refines_write_once_map / C18_keys_do_not_alias / C18_map_laws (Properties/C18.v): for every sequence of save/load operations over arbitrary '
      'node ids, both formats and several contexts, the modelled store returns exactly what a write-once map returns, a failed save leaves the key unsaved and '
      'distinct keys never alias (the proof depends on the DataFormat extension table regenerated from /repo). The extracted model and a plain dict are compared '
      'with the real FileSystemArtifactStore on random adversarial operation sequences in a real temporary directory on every run.',
      'Modelled, not verified: pickle/json (a value is only classified by which formats can serialise it; the round trip load(dump(v)) == v is sampled by the harness) and the OS file system (exists/open/unlink as a finite map).',
      design='4 (C18)')
claim('C16', 'Coq proof (traversal completeness by work-list invariant; soundness/completeness/specificity of validation) + differential run of the real build_dag on defect-injected classes',
      'Theorems C16_reachable_is_examined, C16_accepts_iff_clean, C16_reachable_defect_rejected, C16_specific_error, C16_specific_recurrent_dest/start, C16_check_order '
      '(Properties/C16.v): for every declaration set and every placement of defects, the builder model accepts iff no examined class is defective, every node reachable '
      'from the output is examined, and a single defect yields exactly its error. On every run random valid programs and defect-injected mutations of them (all eight '
      'defect classes, single and multiple, at reachable and unreachable nodes) are built by the real build_dag and the raised error class is compared with the extracted '
      'validation model and with the single-defect oracle.',
      'Modelled, not verified: what Python introspection (inspect.isclass, getmro, signature, __annotations__) decides about one class is abstracted into defect flags; the harness materialises each flag as a real class with that defect.',
      design='4 (C16)')
claim('C15', 'Coq proof (work-list traversal invariant; frame lemma for add_edge) for the delivery of directly bound parameters + correspondence of the extracted builder model with the real build_dag + order-free declared relation',
      'Partial proof, full check. Theorems C15_reachable_is_translated_partial and C15_direct_parameters_delivered_partial (Properties/C15.v): every node the output needs is '
      'translated and every Input / RecurrentSubGraph parameter of it gets its own dependency edge carrying that parameter name, never dropped, re-targeted or merged later, '
      'for all declaration sets with distinct sources per node; C15_refuted_duplicate_source is the machine-checked witness of known finding D13. The synthetic switch / '
      'one-of structures, node attributes, the converse inclusion and order independence are not proved: they are checked on every run by comparing the real build_dag with '
      'the extracted builder model (nodes, edges, all attributes, node_map) and with an order-free declared relation computed from the declarations.',
      'Modelled, not verified: Python introspection of annotations. Known finding D13 (duplicate source / conflicting declarations merged silently) is tolerated only on declaration sets satisfying its trigger predicate.',
      design='4 (C15)')
claim('C20', 'Coq proof (projection theorems over the generate model; prefix typing decided on the regenerated NodeType table) + differential run of the real viewer on source-defined classes',
      'Theorems C20_one_entry_per_node, C20_entries_describe_nodes, C20_by_prefix, C20_one_edge_per_dependency, C20_edge_endpoints_exist, C20_type_table_covers (Properties/C20.v): '
      'for every graph, node map and declaration info the modelled description has exactly one entry per DAG node (virtual iff not in the node map, typed by its synthetic kind; '
      'real entries carry declared name, type and doc), one edge entry per dependency with existing endpoints, and a type table covering every occurring type; by_prefix types '
      'every switch__/input_one_of__ id correctly whatever follows the prefix (proof over the NodeType member table regenerated from /repo). On every run the real '
      'GraphConfigImpl.generate(...).as_dict() on generated source-defined pipelines (all mark kinds, custom / enum / None node types, build_node nodes incl. nested) is '
      'JSON-serialised, checked clause by clause against the DAG, compared with the extracted model, and the DAG is snapshotted before and after.',
      'Not modelled: inspect.getsourcelines / code_source links and the uniqueness of the rendered edge id strings (checked by the harness only).',
      design='4 (C20)')
claim('C13', 'Coq proof (call-discipline invariant of the frame stacks, unwinding lemma for CancelledError, phase invariant of PipelineChart.run, ready-queue consistency; all programs, all schedules) + extracted-model/implementation correspondence with cancellation injected at random steps',
      'Theorems C13_all_helpers_cancelled, C13_nothing_starts_after_run, C13_cancelled_task_finishes_in_one_step, C13_reachable_stacks_respect_call_discipline, '
      'C13_ready_tasks_are_queued, C13_cancel_surfaces_as_CancelledError (Properties/C13.v), each for EVERY program (all constructs, arbitrary bodies, collaborator faults, order oracles) '
      'and EVERY schedule of loop steps, external completions and caller cancellation, of unbounded length: once PipelineChart.run has ended every helper task is finished or has a '
      'CancelledError pending and is queued; a CancelledError ends any task in one loop step without suspending, starting anything visible or creating a task; after the end of run '
      'the visible trace never grows again whatever completes late; a cancelled run is runnable until it ends with CancelledError and nothing else. On every run the extracted model is '
      'compared with the real engine on a virtual event loop under random schedules with the cancellation injected at a random step, the loop is drained afterwards and leftovers / '
      'post-completion activity / the surfaced exception are checked on the implementation.',
      'Not exhibited by the model: a thread/process-pool body that is already executing cannot be interrupted (the model treats its completion as a late gate completion, which theorem (2) covers). '
      'Not proved: the explicit numeric bound on the number of loop steps needed to drain the cancelled helpers (each takes exactly one step by (3) and is queued by (4); the count itself is checked on the implementation).',
      design='4 (C13)')
