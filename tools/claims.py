claim('C12', 'Coq proof (closed form of the retry loop by induction on remaining attempts) + extracted-model/implementation correspondence',
      'Theorems C12_closed_form / C12_invocations / C12_result / C12_refines_reference (Properties/C12.v): for every policy and every sequence of '
      'per-attempt outcomes the retry loop of the engine model equals its closed form and computes what the reference semantics prescribes. '
      'The loop model shares its decision function with the frame model of the run manager, which is compared with the real engine under random '
      'schedules (retry timers racing other completions) on every run, and the attempt log of the real engine is checked against the reference.',
      'Partial in one respect: the wall-clock length of asyncio.sleep is not exhibited (the virtual loop checks that a timer of exactly `delay` is armed between attempts).',
      design='4 (C12)')
claim('C18', 'Coq proof (refinement of the file store to a write-once map by induction over operation sequences) + differential run against the real store on a temp directory',
      'Theorems C18_refines_write_once_map / C18_keys_do_not_alias / C18_map_laws (Properties/C18.v): for every sequence of save/load operations over arbitrary '
      'node ids, both formats and several contexts, the modelled store returns exactly what a write-once map returns, a failed save leaves the key unsaved and '
      'distinct keys never alias (the proof depends on the DataFormat extension table regenerated from /repo). The extracted model and a plain dict are compared '
      'with the real FileSystemArtifactStore on random adversarial operation sequences in a real temporary directory on every run.',
      'Modelled, not verified: pickle/json (a value is only classified by which formats can serialise it; the round trip load(dump(v)) == v is sampled by the harness) and the OS file system (exists/open/unlink as a finite map).',
      design='4 (C18)')
claim('C16', 'Coq proof (traversal completeness by work-list invariant; soundness/completeness/specificity of validation) + differential run of the real build_dag on defect-injected classes',
      'Theorems C16_reachable_is_examined, C16_accepts_iff_clean, C16_reachable_defect_rejected, C16_specific_error, C16_specific_recurrent_dest/start, C16_check_order '
      '(Properties/C16.v): for every declaration set and every placement of defects, the builder model accepts iff no examined class is defective, every node reachable '
      'from the output is examined, and a single defect yields exactly its error. On every run random valid programs and defect-injected mutations of them (all eight '
      'defect classes, single and multiple, at reachable and unreachable nodes) are built by the real build_dag and the raised error class is compared with the extracted '
      'validation model and with the single-defect oracle.',
      'Modelled, not verified: what Python introspection (inspect.isclass, getmro, signature, __annotations__) decides about one class is abstracted into defect flags; the harness materialises each flag as a real class with that defect.',
      design='4 (C16)')
claim('C15', 'Coq proof (work-list traversal invariant; frame lemma for add_edge) for the delivery of directly bound parameters + correspondence of the extracted builder model with the real build_dag + order-free declared relation',
      'Partial proof, full check. Theorems C15_reachable_is_translated_partial and C15_direct_parameters_delivered_partial (Properties/C15.v): every node the output needs is '
      'translated and every Input / RecurrentSubGraph parameter of it gets its own dependency edge carrying that parameter name, never dropped, re-targeted or merged later, '
      'for all declaration sets with distinct sources per node; C15_refuted_duplicate_source is the machine-checked witness of known finding D13. The synthetic switch / '
      'one-of structures, node attributes, the converse inclusion and order independence are not proved: they are checked on every run by comparing the real build_dag with '
      'the extracted builder model (nodes, edges, all attributes, node_map) and with an order-free declared relation computed from the declarations.',
      'Modelled, not verified: Python introspection of annotations. Known finding D13 (duplicate source / conflicting declarations merged silently) is tolerated only on declaration sets satisfying its trigger predicate.',
      design='4 (C15)')
claim('C20', 'Coq proof (projection theorems over the generate model; prefix typing decided on the regenerated NodeType table) + differential run of the real viewer on source-defined classes',
      'Theorems C20_one_entry_per_node, C20_entries_describe_nodes, C20_by_prefix, C20_one_edge_per_dependency, C20_edge_endpoints_exist, C20_type_table_covers (Properties/C20.v): '
      'for every graph, node map and declaration info the modelled description has exactly one entry per DAG node (virtual iff not in the node map, typed by its synthetic kind; '
      'real entries carry declared name, type and doc), one edge entry per dependency with existing endpoints, and a type table covering every occurring type; by_prefix types '
      'every switch__/input_one_of__ id correctly whatever follows the prefix (proof over the NodeType member table regenerated from /repo). On every run the real '
      'GraphConfigImpl.generate(...).as_dict() on generated source-defined pipelines (all mark kinds, custom / enum / None node types, build_node nodes incl. nested) is '
      'JSON-serialised, checked clause by clause against the DAG, compared with the extracted model, and the DAG is snapshotted before and after.',
      'Not modelled: inspect.getsourcelines / code_source links and the uniqueness of the rendered edge id strings (checked by the harness only).',
      design='4 (C20)')
claim('C13', 'Coq proof (call-discipline invariant of the frame stacks, unwinding lemma for CancelledError, phase invariant of PipelineChart.run, ready-queue consistency; all programs, all schedules) + extracted-model/implementation correspondence with cancellation injected at random steps',
      'Theorems C13_all_helpers_cancelled, C13_nothing_starts_after_run, C13_cancelled_task_finishes_in_one_step, C13_reachable_stacks_respect_call_discipline, '
      'C13_ready_tasks_are_queued, C13_cancel_surfaces_as_CancelledError (Properties/C13.v), each for EVERY program (all constructs, arbitrary bodies, collaborator faults, order oracles) '
      'and EVERY schedule of loop steps, external completions and caller cancellation, of unbounded length: once PipelineChart.run has ended every helper task is finished or has a '
      'CancelledError pending and is queued; a CancelledError ends any task in one loop step without suspending, starting anything visible or creating a task; after the end of run '
      'the visible trace never grows again whatever completes late; a cancelled run is runnable until it ends with CancelledError and nothing else. On every run the extracted model is '
      'compared with the real engine on a virtual event loop under random schedules with the cancellation injected at a random step, the loop is drained afterwards and leftovers / '
      'post-completion activity / the surfaced exception are checked on the implementation.',
      'Not exhibited by the model: a thread/process-pool body that is already executing cannot be interrupted (the model treats its completion as a late gate completion, which theorem (2) covers). '
      'Not proved: the explicit numeric bound on the number of loop steps needed to drain the cancelled helpers (each takes exactly one step by (3) and is queued by (4); the count itself is checked on the implementation).',
      design='4 (C13)')
E_NOTE = ('Kind-E theorems are about the catalogue programs only (coq/Catalogue/Programs.v: every DAG shape of the repository test suite re-expressed as a ProgSpec, '
          'the witnesses of the repaired defects, nested / shared / failing variants; default order oracles): for each, a closed set of history-free states is computed and '
          're-checked by vm_compute inside Coq (Explore/Explorer.v: closed_sound; Explore/Erase.v: the trace is write-only), so the statement holds for every schedule of '
          'unbounded length, including cancellation by the caller at any point. For programs outside the catalogue the property is NOT proved: there it is decided by the '
          'oracle evaluated on the real engine under random schedules against the extracted reference semantics, and by the model/implementation correspondence. '
          'For the catalogue programs themselves the tie is exhaustive: on every run the real engine is driven along EVERY transition of the explored state graph (one action list per transition, '
          'computed by the extracted explorer; about 25 000 transitions over the catalogue, the four biggest programs sampled in the quick tier) and compared with the model; the default order oracle of the model '
          'reproduces networkx topological_sort exactly (0 disagreements in 9 600 cases run without feeding the recorded orders). '
          'Known findings (DESIGN 3.6) delimit where the full statement is false.')
claim('C01', 'Coq proof by certified exhaustive exploration (closed state set computed and re-checked in the kernel by vm_compute, per catalogue program, all schedules) against the reference dataflow semantics + extracted-model/implementation correspondence + oracle on the real engine',
      'Theorems C01_catalogue, C01_value_is_schedule_independent, C01_verdict_is_schedule_independent, C01_with_cancellation (Properties/C01.v): for each of the 35 clean catalogue programs and EVERY schedule '
      '(any order and timing of body / timer / callback / save completions, step-granular interleaving), the signal with which PipelineChart.run ends is what the independent reference semantics eval prescribes: the same value, '
      'or an error result whose exception is a root cause of the reference failure, or a propagated BaseException root cause; two schedules can never disagree; with caller cancellation the only further outcome is CancelledError. '
      'On every run 2400 (program, schedule) cases on the real engine are compared with the extracted model and with the extracted reference.',
      E_NOTE, design='4 (C01)')
claim('C02', 'Coq proof: no-deadlock theorem for ALL plain programs and all schedules (invariants over configuration-level reachability) + certified exhaustive exploration per catalogue program (no deadlock, bounded chains of loop steps, all schedules) + all-program lemmas (ready-queue consistency, cancellation never hangs) + deadlock oracle on the real engine on a virtual loop + correspondence',
      'Theorems C02_holds_on_certified_programs, C02_catalogue (Properties/C02.v): for each of the 37 catalogue programs (incl. raising event managers / artifact stores, None and falsy values, a label without a case, failures at depth in one-of candidates) '
      'and EVERY schedule incl. caller cancellation, no reachable state is a deadlock (loop idle, nothing outstanding, run pending), the model interpreter never gives up, and at most 300 consecutive loop steps happen without an external completion. '
      'C02_no_lost_wakeup_at_loop_level_partial holds for ALL programs: a Ready task is always queued. C02_on_plain_programs_no_deadlock (kind F): for EVERY plain program (graph without switch / one-of attributes, no body asking for another iteration; any size, shape, retry/default settings, modes, gated or raising event managers and stores) and every schedule incl. caller cancellation no reachable state is a deadlock, given launch / successor orders that are valid (decidable; checked of every recorded order). On every run the exact deadlock verdict of the virtual loop is evaluated on the real engine for 2400 generated (program, schedule) cases with collaborator faults.',
      E_NOTE + ' Not exhibited: a body or collaborator call that never returns (outside the statement).', design='4 (C02)')
claim('C03', 'Coq proof by certified exhaustive exploration per catalogue program (arguments held by the retry-loop frames = reference arguments, all schedules) + oracle on every body invocation of the real engine against the extracted reference + correspondence',
      'Theorems C03_catalogue, C03_arguments_are_reference_arguments (Properties/C03.v): for each clean catalogue program and every schedule, the keyword arguments a body is / was / will again be invoked with (frames of the retry loop of every task) are '
      'exactly arguments the reference semantics passes to that node: one keyword per declared parameter carrying the final value of the declared input, never a failure object, a Recurrent marker or a placeholder. Kind F theorem C03_on_plain_programs_no_failure_object_or_marker_as_argument: for ALL plain programs and all schedules no body / get_default invocation (inline ones included: the statement is on the trace) has a failure object or Recurrent marker among its arguments. '
      'On every run every logged body invocation of the real engine (kwargs by value) is matched against the reference log.',
      E_NOTE + ' Limitation of the frame formulation: a body that does not suspend (inline / immediate mode) never rests in a frame between loop steps; those invocations are covered by the implementation oracle and the trace correspondence only.', design='4 (C03)')
claim('C04', 'Coq proof by certified exhaustive exploration per catalogue program (invocation counters bounded by the reference, all schedules) + oracle on invocation counts of the real engine + correspondence',
      'Theorem C04_catalogue (Properties/C04.v): for each clean catalogue program and every schedule incl. cancellation, the number of body invocations of every node never exceeds the number of invocations of the reference evaluation '
      '(one execution per run and (re-)iteration, plus retry attempts), however many consumers, switch branches, one-of candidates or scopes request it. On every run the invocation log of the real engine (with gated event managers, so that the duplicate-request window is exercised) is embedded into the reference log.',
      E_NOTE, design='4 (C04)')
claim('C05', 'Coq proof by certified exhaustive exploration per catalogue program (classification of the outcome against the reference, all schedules) + oracle on PipelineResult of the real engine + correspondence',
      'Theorems C05_catalogue, C05_never_an_artefact (Properties/C05.v): for each clean catalogue program and every schedule incl. cancellation: a value only if the reference evaluates to it; PipelineResult(error=e) only with e an Exception that is a root cause of the reference failure '
      '(a final failure raised by a required node of this run, or the documented one-of / recurrent / switch error), never a KeyError-like artefact or a helper CancelledError; run raises only a BaseException root cause or the caller\'s own CancelledError. '
      'On every run the identity-tracked exceptions of generated bodies are checked on the real engine.',
      E_NOTE, design='4 (C05)')
claim('C09', 'Coq proof by certified exhaustive exploration per catalogue program (switch programs: counters, arguments, outcome, no deadlock; all schedules) + oracle on the real engine + correspondence',
      'Theorems C09_catalogue, C09_non_selected_case_never_runs, C09_unknown_label_fails_the_run (Properties/C09.v): for the switch programs of the catalogue (plain, unknown label, selected case shared with another consumer, failing case, nested) and every schedule: '
      'nodes needed only by non-selected cases are never executed, a shared selected case is executed once, the consumer receives the selected case value, a label without a case ends the run with SwitchCaseDoesNotHaveBranchError, never a hang.',
      E_NOTE, design='4 (C09)')
claim('C10', 'Coq proof by certified exhaustive exploration per catalogue program (one-of programs: laziness counters, arguments, containment, outcome; all schedules) + oracle on the real engine + correspondence',
      'Theorems C10_catalogue, C10_later_candidate_never_runs, C10_failure_is_contained, C10_all_candidates_fail (Properties/C10.v): for the one-of programs of the catalogue (first / last wins, all fail, None value, failure at depth, a candidate with parallel dependencies, nested, shared between candidates) '
      'and every schedule: later candidates and what only they need are never executed, failures of losing candidates do not fail the run nor reach a consumer as a value, all candidates failing gives OneOfDoesNotHaveResultError.',
      E_NOTE, design='4 (C10)')
claim('C11', 'Coq proof by certified exhaustive exploration per catalogue program (recurrent programs: re-execution counters, arguments, outcome; all schedules) + oracle on the real engine + correspondence',
      'Theorems C11_catalogue, C11_bounded_reexecution, C11_exhaustion_fails_the_run (Properties/C11.v): for the recurrent programs of the catalogue (simple, exhausted with / without default, error inside, two consumers, retry inside, nested) and every schedule: '
      'inner nodes are re-executed at most as often as the reference iterates (at most max_iterations), outside nodes at most once, consumers get the first non-Recurrent result or the default, exhaustion without default gives RecurrentSubgraphDoesNotHaveResultError.',
      E_NOTE, design='4 (C11)')
claim('C19', 'Coq proof by certified exhaustive exploration per catalogue program (save counters and saved values; all schedules) + oracle on the recording / write-once store of the real engine + correspondence',
      'Theorems C19_catalogue, C19_saved_at_most_once (Properties/C19.v): for each clean catalogue program (with a gated write-once store on a rhombus, on a switch with a shared selected case and on a one-of with a failing candidate) and every schedule: no node id is saved twice, '
      'nothing handed to the store is a Recurrent marker or a contained failure, a write-once store never makes the run fail. Kind F theorem C19_on_plain_programs_no_marker_or_failure_is_saved: for ALL plain programs (no switch / one-of / iteration request; any size, settings, collaborators) and all schedules nothing handed to the store is a Recurrent marker or a failure. On every run the saves seen by a recording / write-once store on the real engine are compared with the values consumers received.',
      E_NOTE + ' Known finding D15d (one save per iteration inside a recurrent subgraph) is tolerated on programs with a recurrent subgraph only.', design='4 (C19)')
claim('C07', 'Coq proof (each run of a history is the single run of a fresh chart under its own schedule: projection theorem over the free interleaving of per-run machines, all programs; outcomes on the catalogue by certified exploration) + history correspondence with deep snapshots of the real chart',
      'Theorems C07_each_run_is_a_fresh_run (all programs, all histories / interleavings) and C07_history_outcomes (catalogue programs: the k-th run yields what the reference gives) in Properties/C07.v. '
      'In the model a chart is the immutable program and a run a fresh state, so "nothing is left behind" holds by construction; that the REAL engine writes nothing into the DAG, its graph attributes, the node map, the node classes '
      'or the caller\'s input_kwargs is what the check examines on every run: histories of 2-4 runs of one chart with different inputs, failures and a cancelled run, deep snapshots around every run, every run compared with the single-run model '
      'and with the reference on its own input (this is how D6, D7, D8, D18 were found and repaired).',
      'The theorem is weak by design (the modelled engine has no shared mutable state); the assurance that the real engine has none comes from the correspondence part, which samples histories. Trusted: snapshot covers graph nodes/edges/attributes, graph attrs, node_map, class attributes name/attempts/delay/exceptions/use_default/tags/node_type, and the input dict.',
      design='4 (C07)')
claim('C08', 'Coq proof (projection and non-interference over the free interleaving of per-run machines, all programs and interleavings; solo outcomes on the catalogue by certified exploration) + correspondence with 2-3 overlapping chart.run tasks on one virtual loop',
      'Theorems C08_projection, C08_non_interference (all programs, any number of runs, every interleaving: a run in a crowd is the single run under its induced schedule; what other runs do, including failing or being cancelled, cannot change it) and '
      'C08_each_run_gets_its_solo_outcome (catalogue) in Properties/C08.v. On every run 2-3 overlapping runs of one chart with different inputs, one of them optionally cancelled, are executed on one virtual loop under random quiescent-batch schedules; '
      'each run is compared with the single-run model under its induced schedule and with the reference on its own input; snapshots as for C07.',
      'As for C07 the theorem rests on the model having no shared mutable state; the correspondence part samples interleavings (quiescent-batch only: a single loop step cannot be attributed to a run from outside). Not modelled: the process-wide pool registries and user code that mutates class attributes of shared node classes.',
      design='4 (C08)')
claim('C14', 'Coq proof: certified exhaustive exploration per catalogue program (event-callback counters: pipeline bracket, per-node bounds, helpers over at pipeline_complete; all schedules) + all-program lemmas (chart task holds only pipeline emissions; silence after the end of run, C13) + grammar oracle on the merged event/body trace of the real engine + correspondence',
      'Theorems C14_catalogue (each clean catalogue program, every schedule incl. cancellation, managers gated or not: on_pipeline_start at most once per manager and before anything else; on_pipeline_complete at most once per manager and only when every helper task is finished or cancelled, '
      'so that by C13 nothing can follow it; per node at most one on_node_start per execution and one on_node_complete per attempt of the reference; no event for a node the reference never runs) and C14_pipeline_events_come_from_the_chart_task (all programs, all schedules) in Properties/C14.v. '
      'On every run recording event managers (gated in half of the cases, so callbacks interleave with bodies) observe the real engine; the per-node grammar start (complete(err))* final, the bracket, the identity of the PipelineResult object and value-after-complete are checked on the merged trace.',
      E_NOTE + ' Decided on the implementation only: identity of the PipelineResult object, the exact order of events within one execution, and that a value reaches consumers only after the successful on_node_complete. Raising managers are outside the statement (C02 covers termination with them).',
      design='4 (C14)')
claim('C17', 'Coq proof: all-program theorem for the fail-fast clause (no task created, nothing node-level observed when a needed pool is not ready) + certified exploration for the outcome and for three mode assignments of one program + real-pool and registry-state runs of the real engine',
      'Theorems C17_missing_pool_nothing_runs (EVERY program and schedule: if _is_executor_needed requires a pool that is not ready, no task is ever created and the trace contains only the two pipeline events), C17_missing_pool_outcome (catalogue: the run ends with the registry RuntimeError as an error result, or the caller\'s CancelledError; never a hang) and '
      'C17_mode_transparent_on_the_rhombus (three assignments of the five execution modes: one value under every schedule) in Properties/C17.v. On every run generated programs are executed under 3 random mode assignments on the virtual loop against the reference and the model; a sample runs on a REAL event loop with a real ThreadPoolExecutor and a fork ProcessPoolExecutor; '
      '15 registry states x node variants run in fresh subprocesses (never registered / shut down / no manager).',
      'Mode transparency for ALL programs is not a theorem (the reference ignores modes by construction; that the engine does is established per catalogue program and sampled on the implementation). Not exhibited by the model: real pool timing, pickling of process-pool arguments, worker saturation. ' + E_NOTE,
      design='4 (C17)')
claim('C06', 'Coq proof by certified exhaustive exploration per plain catalogue program (at every quiescent undecided state all nodes up to the smallest incomplete depth are started; all schedules; generation-order oracle) + level-by-level withholding schedule on the real engine + correspondence',
      'Theorem C06_catalogue (Properties/C06.v): for every plain-DAG program of the clean catalogue (chain, rhombus with (gated) managers / gated write-once store / failing sibling, three siblings, mode mixes, retries) and EVERY schedule, at each quiescent point of an undecided run every node whose depth does not exceed the smallest depth of an incomplete node has been started: '
      'nobody waits for a sibling. On every run plain DAGs with mixed execution modes are run on the real engine under a schedule that withholds all completions of depth d, runs to quiescence, checks that all depth-d bodies have started, then releases depth d; the recorded topological order must be generation-sorted.',
      'The property depends on networkx producing generation order (checked on every run, assumed by the default order oracle of the model; false for an arbitrary topological order). Not proved for all plain DAGs. Not exhibited: a real pool with fewer workers than siblings only queues the work item. ' + E_NOTE,
      design='4 (C06)')
