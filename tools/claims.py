claim('C12', 'Coq proof (closed form of the retry loop by induction on remaining attempts) + extracted-model/implementation correspondence',
      'Theorems C12_closed_form / C12_invocations / C12_result / C12_refines_reference (Properties/C12.v): for every policy and every sequence of '
      'per-attempt outcomes the retry loop of the engine model equals its closed form and computes what the reference semantics prescribes. '
      'The loop model shares its decision function with the frame model of the run manager, which is compared with the real engine under random '
      'schedules (retry timers racing other completions) on every run, and the attempt log of the real engine is checked against the reference.',
      'Partial in one respect: the wall-clock length of asyncio.sleep is not exhibited (the virtual loop checks that a timer of exactly `delay` is armed between attempts).',
      design='4 (C12)')
