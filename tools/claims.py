claim('C12', 'Coq proof (closed form of the retry loop by induction on remaining attempts) + extracted-model/implementation correspondence',
      'Theorems C12_closed_form / C12_invocations / C12_result / C12_refines_reference (Properties/C12.v): for every policy and every sequence of '
      'per-attempt outcomes the retry loop of the engine model equals its closed form and computes what the reference semantics prescribes. '
      'The loop model shares its decision function with the frame model of the run manager, which is compared with the real engine under random '
      'schedules (retry timers racing other completions) on every run, and the attempt log of the real engine is checked against the reference.',
      'Partial in one respect: the wall-clock length of asyncio.sleep is not exhibited (the virtual loop checks that a timer of exactly `delay` is armed between attempts).',
      design='4 (C12)')
claim('C18', 'Coq proof (refinement of the file store to a write-once map by induction over operation sequences) + differential run against the real store on a temp directory',
      'Theorems C18_refines_write_once_map / C18_keys_do_not_alias / C18_map_laws (Properties/C18.v): for every sequence of save/load operations over arbitrary '
      'node ids, both formats and several contexts, the modelled store returns exactly what a write-once map returns, a failed save leaves the key unsaved and '
      'distinct keys never alias (the proof depends on the DataFormat extension table regenerated from /repo). The extracted model and a plain dict are compared '
      'with the real FileSystemArtifactStore on random adversarial operation sequences in a real temporary directory on every run.',
      'Modelled, not verified: pickle/json (a value is only classified by which formats can serialise it; the round trip load(dump(v)) == v is sampled by the harness) and the OS file system (exists/open/unlink as a finite map).',
      design='4 (C18)')
