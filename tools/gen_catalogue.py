"""Writes coq/Catalogue/Programs.v: the catalogue of concrete programs for the certified all-schedule exploration
(kind E theorems). The shapes are those of the repository's test suite re-expressed as ProgSpecs, the harness templates
and the witnesses of repaired defects. Deterministic (fixed seeds); the output is committed."""
import json
import os
import random
import sys

ROOT = os.path.dirname(os.path.dirname(os.path.abspath(__file__)))
sys.path.insert(0, os.path.join(ROOT, 'harness'))
import coqgen  # noqa: E402
import gen as G  # noqa: E402
import progspec as ps  # noqa: E402

N = G.N


def I(m):
    return ['in', m]


CAT = []


def add(name, nodes, **kw):
    spec = dict(nodes=nodes, **kw)
    ps.spec_defaults(spec)
    CAT.append((name, spec))


# ---- plain DAGs (tests/dag/test_dag_chain, _rhombus, _single, reusable nodes) ----
add('chain', [N(), N([['a', I(0)]]), N([['a', I(1)]]), N([['a', I(2)]])])
add('rhombus', [N(), N([['a', I(0)]]), N([['a', I(0)]]), N([['a', I(1)], ['b', I(2)]])])
add('rhombus_events', [N(), N([['a', I(0)]]), N([['a', I(0)]]), N([['a', I(1)], ['b', I(2)]])], managers=1)
add('rhombus_gated_events', [N(), N([['a', I(0)]]), N([['a', I(0)]]), N([['a', I(1)], ['b', I(2)]])], managers=1, mgr_gated=True)
add('rhombus_fail', [N(), N([['a', I(0)]], fails=['EA']), N([['a', I(0)]]), N([['a', I(1)], ['b', I(2)]])], managers=1)
add('rhombus_store', [N(), N([['a', I(0)]]), N([['a', I(0)]]), N([['a', I(1)], ['b', I(2)]])], store='writeonce', store_gated=True)
add('three_siblings', [N(), N([['a', I(0)]]), N([['a', I(0)]]), N([['a', I(0)]], fails=['EC']), N([['a', I(1)], ['b', I(2)], ['c', I(3)]])])
add('inline_mix', [N(), N([['a', I(0)]], mode='inline'), N([['a', I(0)]], mode='immediate'), N([['a', I(1)], ['b', I(2)]], mode='thread')])
add('none_values', [N(), N([['a', I(0)]], beh='none'), N([['a', I(1)]], beh=['int', 0]), N([['a', I(1)], ['b', I(2)]])])
# ---- retry / default (tests/dag/retry) ----
add('retry_ok', [N(), N([['a', I(0)]], attempts=3, delay=0.3, fails=['EA', 'EA', None]), N([['a', I(1)]])], managers=1)
add('retry_exhausted_default', [N(), N([['a', I(0)]], attempts=2, delay=0, fails=['EA'], use_default=True), N([['a', I(1)]])])
add('retry_base_error', [N(), N([['a', I(0)]], attempts=3, fails=['BX']), N([['a', I(1)]])])
add('retry_filter', [N(), N([['a', I(0)]], attempts=3, delay=0, exceptions=['EA'], fails=['EB', 'EC']), N([['a', I(0)]]), N([['a', I(1)], ['b', I(2)]])])
# ---- switch (tests/dag/switch_case) ----
add('switch', [N(), N([['a', I(0)]], beh=['str', 'L0']), N([['a', I(0)]]), N([['a', I(0)]]), N([['v', ['sw', 1, [['L0', 2], ['L1', 3]]]]])])
add('switch_unknown_label', [N(), N([['a', I(0)]], beh=['str', 'NOPE']), N([['a', I(0)]]), N([['a', I(0)]]), N([['v', ['sw', 1, [['L0', 2], ['L1', 3]]]]])])
add('switch_shared_case', [N(), N([['a', I(0)]], beh=['str', 'L0']), N([['a', I(0)]]), N([['a', I(0)]]),
                           N([['v', ['sw', 1, [['L0', 2], ['L1', 3]]]], ['w', I(2)]]), N([['a', I(4)], ['b', I(3)]])])
add('switch_case_fails', [N(), N([['a', I(0)]], beh=['str', 'L1']), N([['a', I(0)]]), N([['a', I(0)]], fails=['EA']), N([['v', ['sw', 1, [['L0', 2], ['L1', 3]]]]])])
add('nested_switch', [N(), N([['a', I(0)]], beh=['str', 'L0']), N([['a', I(0)]], beh=['str', 'L1']), N([['a', I(0)]]), N([['a', I(0)]]),
                      N([['v', ['sw', 2, [['L0', 3], ['L1', 4]]]]]), N([['v', ['sw', 1, [['L0', 5], ['L1', 3]]]]])])
# ---- one-of (tests/dag/oneof) ----
add('oneof_first', [N(), N([['a', I(0)]]), N([['a', I(0)]]), N([['v', ['oneof', [1, 2]]]])])
add('oneof_last', [N(), N([['a', I(0)]], fails=['EA']), N([['a', I(0)]]), N([['v', ['oneof', [1, 2]]]])], managers=1)
add('oneof_all_fail', [N(), N([['a', I(0)]], fails=['EA']), N([['a', I(0)]], fails=['EB']), N([['v', ['oneof', [1, 2]]]])])
add('oneof_none_value', [N(), N([['a', I(0)]], beh='none'), N([['a', I(0)]]), N([['v', ['oneof', [1, 2]]]])])
add('oneof_deep_failure', [N(), N([['a', I(0)]], fails=['EA']), N([['a', I(1)]]), N([['a', I(2)]]), N([['a', I(3)]]), N([['a', I(0)]]), N([['v', ['oneof', [4, 5]]]])])
add('oneof_candidate_two_deps', [N(), N([['a', I(0)]]), N([['a', I(0)]], fails=['EA']), N([['a', I(1)], ['b', I(2)]]), N([['a', I(0)]]), N([['v', ['oneof', [3, 4]]]])])
add('nested_oneof', [N(), N([['a', I(0)]], fails=['EA']), N([['a', I(0)]]), N([['v', ['oneof', [1, 2]]], ['z', I(0)]]),
                     N([['a', I(3)]], fails=['EA']), N([['a', I(3)]]), N([['v', ['oneof', [4, 5]]], ['y', I(3)]]), N([['a', I(6)]])])
add('oneof_shared_between_candidates', [N(), N([['a', I(0)]]), N([['a', I(0)]], fails=['EA']), N([['a', I(2)]]), N([['s', I(1)], ['x', I(3)]]),
                                        N([['s', I(1)]]), N([['v', ['oneof', [4, 5]]]]), N([['a', I(6)], ['b', I(1)]])])
add('case_shared_with_candidate', [N(), N([['a', I(0)]], beh=['str', 'k']), N([['a', I(0)]], fails=['EA']), N([['a', I(0)]]), N([['a', I(2)]]),
                                   N([['a', I(0)]]), N([['v', ['sw', 1, [['k', 2], ['o', 3]]]], ['w', ['oneof', [4, 5]]]])])
# ---- recurrent subgraphs (tests/dag/recurrent_subgraph) ----
add('rec_simple', [N(), N([['a', I(0)]]), N([['a', I(1)]], beh=['recur', 2]), N([['r', ['rec', 1, 2, 3]]])])
add('rec_exhausted', [N(), N([['a', I(0)]]), N([['a', I(1)]], beh=['recur', 5]), N([['r', ['rec', 1, 2, 2]]])])
add('rec_default', [N(), N([['a', I(0)]]), N([['a', I(1)]], beh=['recur', 5], use_default=True), N([['r', ['rec', 1, 2, 2]]])])
add('rec_with_error', [N(), N([['a', I(0)]], fails=[None, 'EA']), N([['a', I(1)]], beh=['recur', 2]), N([['r', ['rec', 1, 2, 3]]])])
add('rec_two_consumers', [N(), N([['a', I(0)]]), N([['a', I(1)]]), N([['a', I(2)]], beh=['recur', 1]),
                          N([['r', ['rec', 1, 3, 2]]]), N([['r', I(3)], ['s', I(0)]]), N([['a', I(4)], ['b', I(5)]])])
add('rec_retry_inside', [N(), N([['a', I(0)]], attempts=2, delay=0, fails=['EA', None]), N([['a', I(1)]], beh=['recur', 1]), N([['r', ['rec', 1, 2, 2]]])])
add('rec_nested', [N(), N([['a', I(0)]]), N([['a', I(1)]]), N([['a', I(2)]], beh=['receven', 3]),
                   N([['r', ['rec', 2, 3, 1]]]), N([['a', I(4)]], beh=['recur', 2]), N([['r', ['rec', 1, 5, 2]]])])
# ---- artifact store (C19) ----
add('switch_shared_store', [N(), N([['a', I(0)]], beh=['str', 'L0']), N([['a', I(0)]]), N([['a', I(0)]]),
                            N([['v', ['sw', 1, [['L0', 2], ['L1', 3]]]], ['w', I(2)]])], store='writeonce')
add('oneof_store', [N(), N([['a', I(0)]], fails=['EA']), N([['a', I(0)]]), N([['v', ['oneof', [1, 2]]]])], store='writeonce', store_gated=True)
# ---- execution modes (C17): one rhombus under different mode assignments; a needed pool that is not ready ----
add('rhombus_modes_a', [N(mode='immediate'), N([['a', I(0)]], mode='thread'), N([['a', I(0)]], mode='process'), N([['a', I(1)], ['b', I(2)]], mode='inline')])
add('rhombus_modes_b', [N(mode='inline'), N([['a', I(0)]], mode='inline'), N([['a', I(0)]], mode='thread'), N([['a', I(1)], ['b', I(2)]], mode='process')])
add('nopool_thread', [N(), N([['a', I(0)]], mode='thread'), N([['a', I(0)]]), N([['a', I(1)], ['b', I(2)]])], managers=1, pools=[False, True])
add('nopool_process', [N(), N([['a', I(0)]], mode='process', use_default=True), N([['a', I(1)]])], pools=[True, False])
# ---- collaborator faults (C02) ----
add('mgr_fault_node_start', [N(), N([['a', I(0)]]), N([['a', I(0)]]), N([['a', I(1)], ['b', I(2)]])], managers=1,
    mgr_faults=[['node_start', ['n', 1], 0]])
add('store_fault', [N(), N([['a', I(0)]]), N([['a', I(0)]]), N([['a', I(1)], ['b', I(2)]])], store='record', store_faults=[[['n', 2], 0]])


def main():
    out = ['(* GENERATED by tools/gen_catalogue.py -- the catalogue of concrete programs (kind E theorems: all schedules of each). *)',
           'From MLPE Require Import Engine.Run.', '']
    names = []
    for name, spec in CAT:
        term, _ = coqgen.prog_term(json.loads(json.dumps(spec)))
        out.append('Definition cat_%s : prog :=\n  %s.\n' % (name, term))
        names.append(name)
    out.append('Definition catalogue : list prog := [%s].' % '; '.join('cat_' + n for n in names))
    nopool_names = [n for n, sp in CAT if sp.get('pools', [True, True]) != [True, True]]
    clean_names = [n for n, sp in CAT if not (sp['mgr_faults'] or sp['store_faults']) and n not in nopool_names]
    faulty_names = [n for n, sp in CAT if (sp['mgr_faults'] or sp['store_faults'])]
    out.append('(* programs whose collaborators (event managers, artifact store) never raise / may raise *)')
    out.append('Definition catalogue_clean : list prog := [%s].' % '; '.join('cat_' + n for n in clean_names))
    out.append('Definition catalogue_faulty : list prog := [%s].' % '; '.join('cat_' + n for n in faulty_names))
    out.append('(* programs run with a needed pool missing *)')
    out.append('Definition catalogue_nopool : list prog := [%s].' % '; '.join('cat_' + n for n in nopool_names))
    open(os.path.join(ROOT, 'coq', 'Catalogue', 'Programs.v'), 'w').write('\n'.join(out) + '\n')
    json.dump([dict(name=n, spec=s) for n, s in CAT], open(os.path.join(ROOT, 'harness', 'corpus', 'catalogue.json'), 'w'), indent=0, sort_keys=True)
    # certificates: one vm_compute per program and exploration mode, spread over several files for a parallel build
    groups = 7
    files = [[] for _ in range(groups)]
    for i, (name, spec) in enumerate(CAT):
        files[i % groups].append((name, spec))
    for gi, progs in enumerate(files):
        o = ['(* GENERATED by tools/gen_catalogue.py -- certified all-schedule explorations (computed and re-checked by vm_compute). *)',
             'From MLPE Require Import Engine.Run Explore.StateEq Explore.Erase Explore.Explorer Explore.Safe Catalogue.Programs.',
             'Set Warnings "-abstract-large-number".', 'Definition fuel%d : nat := 400000.' % gi, '']
        for name, spec in progs:
            faulty = bool(spec['mgr_faults'] or spec['store_faults'])
            if name in nopool_names:
                o.append('Lemma cert_%s : certify cat_%s true fuel%d safe_nopool = true.\nProof. vm_compute. reflexivity. Qed.\n' % (name, name, gi))
            elif faulty:
                o.append('Lemma cert_%s : certify cat_%s true fuel%d (safe_term cat_%s) = true.\nProof. vm_compute. reflexivity. Qed.\n' % (name, name, gi, name))
            else:
                o.append('Lemma cert_%s : certify cat_%s true fuel%d (safe_full cat_%s true) = true.\nProof. vm_compute. reflexivity. Qed.' % (name, name, gi, name))
                o.append('Lemma cert_nc_%s : certify cat_%s false fuel%d (safe_outcome cat_%s false) = true.\nProof. vm_compute. reflexivity. Qed.\n' % (name, name, gi, name))
        open(os.path.join(ROOT, 'coq', 'Catalogue', 'Cert%d.v' % gi), 'w').write('\n'.join(o) + '\n')
    o = ['(* GENERATED by tools/gen_catalogue.py -- every program of the catalogue carries its certificates. *)',
         'From MLPE Require Import Engine.Run Explore.StateEq Explore.Erase Explore.Explorer Explore.Safe Catalogue.Programs.',
         'From MLPE Require Import ' + ' '.join('Catalogue.Cert%d' % g for g in range(groups)) + '.', '',
         'Definition certified_full (P : prog) : Prop :=',
         '  exists fuel, certify P true fuel (safe_full P true) = true /\\ certify P false fuel (safe_outcome P false) = true.',
         'Definition certified_term (P : prog) : Prop := exists fuel, certify P true fuel (safe_term P) = true.', '',
         'Lemma catalogue_clean_certified : Forall certified_full catalogue_clean.', 'Proof.', '  repeat constructor.']
    for i, n in enumerate(clean_names):
        g = [k for k, (nm, _) in enumerate(CAT) if nm == n][0] % groups
        o.append('  - exists fuel%d. split; [exact cert_%s|exact cert_nc_%s].' % (g, n, n))
    o += ['Qed.', '', 'Lemma catalogue_faulty_certified : Forall certified_term catalogue_faulty.', 'Proof.', '  repeat constructor.']
    for n in faulty_names:
        g = [k for k, (nm, _) in enumerate(CAT) if nm == n][0] % groups
        o.append('  - exists fuel%d. exact cert_%s.' % (g, n))
    o += ['Qed.', '', 'Definition certified_nopool (P : prog) : Prop := exists fuel, certify P true fuel safe_nopool = true.', '',
          'Lemma catalogue_nopool_certified : Forall certified_nopool catalogue_nopool.', 'Proof.', '  repeat constructor.']
    for n in nopool_names:
        g = [k for k, (nm, _) in enumerate(CAT) if nm == n][0] % groups
        o.append('  - exists fuel%d. exact cert_%s.' % (g, n))
    o += ['Qed.']
    open(os.path.join(ROOT, 'coq', 'Catalogue', 'Certified.v'), 'w').write('\n'.join(o) + '\n')
    print('catalogue:', len(CAT), 'programs,', groups, 'certificate files')


main()
