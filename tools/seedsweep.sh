#!/bin/bash
# usage: seedsweep.sh "<seeds>" [ids...]    runs ./check <id> --tier quick with VERIF_SEED=<seed> on the CURRENT tree and prints
# only the lines of runs that alarm (a check that alarms on the unchanged tree is broken: this is how such alarms are hunted).
# Restores the committed evidence afterwards.
SEEDS=$1; shift
IDS=${@:-C01 C02 C03 C04 C05 C06 C07 C08 C09 C10 C11 C12 C13 C14 C15 C16 C17 C18 C19 C20}
cd "$(dirname "$0")/.."
for s in $SEEDS; do
  for c in $IDS; do
    out=$(VERIF_SEED=$s timeout 1500 ./check $c --tier quick 2>&1 | grep -v KNOWN-FINDING)
    rc=$?
    if echo "$out" | grep -q "VIOLATION"; then
      echo "ALARM seed=$s $c"; echo "$out" | tail -4
      mkdir -p /tmp/sweep_replays; cp evidence/replay/$c-*.json /tmp/sweep_replays/ 2>/dev/null
      for f in evidence/replay/$c-*.json; do [ -f "$f" ] && cp "$f" /tmp/sweep_replays/seed${s}_$(basename $f); done
    else
      echo "ok seed=$s $c $(echo "$out" | tail -1 | sed 's/.*wall=//')"
    fi
  done
done
git checkout -- evidence 2>/dev/null
echo SWEEP-DONE
