#!/bin/bash
# usage: seed.sh <PID> <K> <agent worktree> "<what it needs to manifest>" [extra check ids...]
# Confirms an independently written mutant (source change + demo_<PID>.py in the agent's worktree) on a fresh scratch
# worktree of /repo HEAD: demo exits 0 on HEAD, the 62 tests pass with the patch, demo exits non-zero with the patch.
# If confirmed, stores it as /verif/seeded/<PID>-<K>/ and runs ./check <PID> (and the extra ids) against the patch applied to /repo.
P=$1; K=$2; SRC=$3; NEEDS=$4; shift 4; EXTRA="$@"
WT=/tmp/seedwt_${P}_$K
DIFF=/tmp/seed_${P}_$K.diff
git -C $SRC diff HEAD -- ml_pipeline_engine ml_pipeline_viewer > $DIFF
DEMO=$SRC/demo_$P.py
[ -s "$DIFF" ] && [ -f "$DEMO" ] || { echo "$P-$K: missing diff or demo"; exit 2; }
rm -rf $WT; git -C /repo worktree add -q --detach $WT HEAD || exit 2
cleanup() { git -C /repo worktree remove --force $WT 2>/dev/null; }
trap cleanup EXIT
cp $DEMO $WT/demo_$P.py
sed -i "s#$SRC#$WT#g" $WT/demo_$P.py
run_demo() { ( cd $WT && PYTHONPATH=$WT timeout 300 /venv/bin/python demo_$P.py >/tmp/seed_demo_${P}_$K.log 2>&1; echo $?; ) }
base=$(run_demo)
git -C $WT apply $DIFF || { echo "$P-$K: patch does not apply"; exit 3; }
tests=$(cd $WT && PYTHONPATH=$WT /venv/bin/python -m pytest -q -p no:cacheprovider --timeout=900 2>&1 | tail -1)
mut=$(run_demo)
echo "$P-$K: demo on HEAD exit=$base; with patch: tests='$tests' demo exit=$mut"
if [ "$base" = "0" ] && [ "$mut" != "0" ] && echo "$tests" | grep -q "62 passed"; then
  D=/verif/seeded/$P-$K; mkdir -p $D
  cp $DIFF $D/patch.diff; cp $DEMO $D/demo.py; sed -i "s#$SRC#/repo#g" $D/demo.py
  echo "CONFIRMED $P-$K"
else
  echo "NOT-CONFIRMED $P-$K"; exit 4
fi
cleanup; trap - EXIT
# run the checks against the patch applied to /repo, then undo
git -C /repo apply $DIFF || { echo "cannot apply to /repo"; exit 5; }
RES=""
for C in $P $EXTRA; do
  out=$(cd /verif && ./check $C --tier quick 2>&1 | grep -v KNOWN-FINDING | tail -3)
  if echo "$out" | grep -q "^VIOLATION"; then v=detected; else v=missed; fi
  nf=$(echo "$out" | grep -c "no-failing-input-found")
  RES="$RES $C:$v$( [ $nf -gt 0 ] && echo '(no-failing-input)')"
  echo "--- ./check $C on the mutant: $v"; echo "$out" | head -3
done
git -C /repo checkout -- .
# the evidence written while the patch was applied describes the patched tree: restore the committed (unchanged-tree) evidence
git -C /verif checkout -- evidence 2>/dev/null
python3 - "$P" "$K" "$NEEDS" "$base" "$mut" "$tests" "$RES" <<'PY'
import json, sys
P, K, needs, base, mut, tests, res = sys.argv[1:8]
json.dump(dict(property=P, needs=needs, demo_exit_on_head=int(base), demo_exit_with_patch=int(mut), tests_with_patch=tests,
               checks_on_patched_repo=res.split(),
               ran=['tools/seed.sh: fresh scratch worktree of /repo HEAD; demo on HEAD; git apply patch; pytest (62 must pass); demo with patch',
                    'git -C /repo apply patch.diff; ./check <id> --tier quick; git -C /repo checkout -- .']),
          open('/verif/seeded/%s-%s/meta.json' % (P, K), 'w'), indent=1)
PY
echo "RESULT $P-$K:$RES"
