#!/bin/bash
# applies every seeded change to /repo in turn, runs the quick check of the property it breaks, undoes it; prints one line each
cd /verif
for d in seeded/*/; do
  id=$(basename $d); prop=${id%%-*}
  [ -f $d/patch.diff ] || continue
  git -C /repo apply $PWD/$d/patch.diff 2>/dev/null || { echo "$id: patch does not apply"; continue; }
  out=$(./check $prop --tier quick 2>&1 | grep -v KNOWN-FINDING)
  git -C /repo checkout -- . 
  if echo "$out" | grep -q "^VIOLATION"; then
    nf=$(echo "$out" | grep "^VIOLATION" | grep -vc "no-failing-input-found")
    echo "$id: detected ($nf with a failing input) :: $(echo "$out" | grep -B1 "^VIOLATION" | head -1 | cut -c1-160)"
  else
    echo "$id: MISSED"
  fi
done
git -C /repo status --short | head -3
# evidence written while a patch was applied describes the patched tree: restore the committed evidence
git -C /verif checkout -- evidence
