"""Regenerate MANIFEST.json from the table below (run after changing what is claimed)."""
import json, os
ROOT = os.path.dirname(os.path.dirname(os.path.abspath(__file__)))
props = [json.loads(l)['id'] for l in open(os.path.join(ROOT, 'properties.jsonl'))]
NOTE = ('Trusted base: Coq 8.16.1 kernel (no axioms: every property theorem prints "Closed under the global context"); the hand-written '
        'Coq model and its asyncio assumptions A1-A9, tied to /repo on every run by the correspondence check (extracted OCaml model vs the '
        'real engine on a virtual event loop) and by the regenerated gen/Tables.v; extraction with ExtrOcamlBasic; the Python harness. '
        'See DESIGN.md section 6.')
CLAIMS = {}
def claim(pid, technique, text, note_extra='', design='4'):
    CLAIMS[pid] = dict(technique=technique, text=text, note=note_extra, design=design)

exec(open(os.path.join(ROOT, 'tools', 'claims.py')).read())

checks = []
for p in props:
    if p in CLAIMS:
        c = CLAIMS[p]
        checks.append(dict(property_id=p, quick_cmd='./check %s --tier quick' % p, thorough_cmd='./check %s --tier thorough' % p,
                           evidence_file='evidence/%s.json' % p, replay_cmd_template='./check %s --replay {path}' % p,
                           engine='coq-model+correspondence',
                           level_claimed=dict(category='proof', text=c['text'], design_ref='DESIGN.md section ' + c['design']),
                           level_note=(c['note'] + ' ' if c['note'] else '') + NOTE, technique=c['technique']))
m = dict(version=1, setup_cmd='bash /verif/build.sh clean',
         hooks=dict(guard='MLPE_VERIF', enable='no source hooks are used: the checks drive the unmodified engine from /repo on a virtual event loop and wrap two networkx functions in the manager module namespace at run time',
                    baseline_off_cmd='cd /repo && /venv/bin/python -m pytest -ra -q -p no:cacheprovider --timeout=900 --continue-on-collection-errors',
                    source_commits=[], add_only=True),
         engines=[dict(name='coq-model+correspondence', path='coq/ harness/', serves_properties=sorted(CLAIMS),
                       kind_free_text='Coq 8.16 development (model + theorems), extracted to OCaml and run against the real engine by a Python harness')],
         checks=checks,
         notes='fix: commits in /repo and recorded known findings are listed in known_findings.json and DESIGN.md section 3.6',
         not_applicable=[dict(property_id=p, reason='check not built yet (work in progress, see DESIGN.md section 5)') for p in props if p not in CLAIMS])
json.dump(m, open(os.path.join(ROOT, 'MANIFEST.json'), 'w'), indent=1)
print('claimed:', sorted(CLAIMS))
