#!/bin/bash
# usage: confirm_seed.sh C12 1   -- confirm /tmp/mut/C12/_seed/mutant1.diff + demo1.py on a scratch worktree of /repo HEAD
# and, if everything holds, store it as /verif/seeded/C12-1/
P=$1; K=$2; SRC=/tmp/mut/$P/_seed; WT=/tmp/seedwt_$P_$K
DIFF=$SRC/mutant$K.diff
DEMO=$(ls $SRC/demo$K.py $SRC/test_demo$K.py 2>/dev/null | head -1)
[ -f "$DIFF" ] && [ -n "$DEMO" ] || { echo "$P-$K: missing files"; exit 2; }
rm -rf $WT; git -C /repo worktree add -q --detach $WT HEAD || exit 2
cleanup() { git -C /repo worktree remove --force $WT 2>/dev/null; }
trap cleanup EXIT
run_demo() { ( cd $WT && REPO_UNDER_TEST=$WT PYTHONPATH=$WT timeout 300 /venv/bin/python $( [[ $DEMO == *test_demo* ]] && echo "-m pytest -q -p no:cacheprovider" ) $DEMO >/tmp/seed_demo_$P_$K.log 2>&1; echo $?; ) }
base=$(run_demo)
if ! git -C $WT apply --3way $DIFF 2>/tmp/seed_apply_$P_$K.log; then echo "$P-$K: patch does not apply on HEAD"; exit 3; fi
git -C $WT diff HEAD > /tmp/seed_rebased_$P_$K.diff
tests=$(cd $WT && /venv/bin/python -m pytest -q -p no:cacheprovider --timeout=900 2>&1 | tail -1)
mut=$(run_demo)
echo "$P-$K: demo on HEAD exit=$base; with patch: tests='$tests' demo exit=$mut"
if [ "$base" = "0" ] && [ "$mut" != "0" ] && echo "$tests" | grep -q "62 passed"; then
  D=/verif/seeded/$P-$K; mkdir -p $D
  cp /tmp/seed_rebased_$P_$K.diff $D/patch.diff; cp $DEMO $D/$(basename $DEMO)
  sed -i "s#/tmp/mut/$P#/repo#g" $D/$(basename $DEMO)
  echo "CONFIRMED $P-$K"
else
  echo "NOT-CONFIRMED $P-$K"
fi
