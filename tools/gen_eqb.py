"""Writes coq/Explore/StateEq.v: structural boolean equality on the model's state, with the soundness lemma
(eqb x y = true -> x = y) for every type. Mechanical text generation from the constructor table below (the table is
checked by Coq: a wrong arity or type does not compile)."""
import sys

# type -> eqb function name (for already existing / primitive ones)
PRIM = {'nat': 'Nat.eqb', 'bool': 'Bool.eqb', 'Z': 'Z.eqb'}
SOUND = {'nat': 'nat_eqb_sound', 'bool': 'bool_eqb_sound', 'Z': 'Z_eqb_sound'}

INDUCTIVES = [
    ('exc_cls', [('EA', []), ('EB', []), ('EC', []), ('BX', []), ('EExc', []), ('EBase', [])]),
    ('key', [('KN', ['nat']), ('KSw', ['nat', 'nat']), ('KOo', ['nat', 'nat'])]),
    ('eerr', [(c, []) for c in ['EOneOfNoResult', 'ERecNoResult', 'ESwitchNoBranch', 'EInternal', 'EArtifactExists', 'EPoolNotReady', 'EOutOfFuel']]),
    ('exn', [('XNode', ['exc_cls', 'nat', 'nat']), ('XEng', ['eerr', 'key']), ('XMgr', ['nat']), ('XStore', ['nat']), ('XCancelled', [])]),
    'VALUE',
    ('signal', [('SGo', []), ('SVal', ['value']), ('SElsewhere', []), ('SThrow', ['exn']), ('SResErr', ['exn'])]),
    ('evkind', [(c, []) for c in ['EvPipelineStart', 'EvPipelineComplete', 'EvNodeStart', 'EvNodeComplete']]),
    ('gate', [('GBody', ['nat', 'nat']), ('GTimer', ['nat', 'nat']), ('GEmit', ['evkind', 'option key', 'nat', 'nat']), ('GSave', ['key', 'nat'])]),
    ('cond', [('CRun', []), ('CNode', ['key'])]),
    ('wait', [('WCond', ['cond']), ('WEvent', ['key']), ('WGate', ['gate'])]),
    ('ctr', [('CBody', ['nat']), ('CSleep', ['nat']), ('CEmit', ['nat', 'evkind', 'option key']), ('CSave', ['key'])]),
    ('rdag', [('Build_rdag', ['list key', 'key', 'key', 'bool', 'bool', 'bool'])]),
    ('frame', [
        ('FChartStart', []), ('FChartAfterStart', []), ('FChartAfterRun', []), ('FChartAfterEmitOk', ['value']), ('FChartAfterEmitErr', ['exn']),
        ('FEmit', ['evkind', 'option key', 'option exn', 'option value', 'nat', 'bool']),
        ('FSave', ['key', 'value', 'bool', 'nat']),
        ('FRunWait', []),
        ('FDagStart', ['rdag']), ('FDagLoop', ['rdag', 'list key', 'list nat']), ('FDagFinal', ['rdag']),
        ('FSwitchStart', ['rdag', 'key']), ('FSwitchAfter', ['key']),
        ('FOneOfLoop', ['rdag', 'key', 'list key']), ('FOneOfWait', ['rdag', 'key', 'key', 'rdag', 'list key']),
        ('FNodeStart', ['rdag', 'key', 'bool']), ('FNodeAfterExec', ['rdag', 'key']), ('FNodeAfterSave', ['rdag', 'key', 'bool']),
        ('FExecStart', ['rdag', 'key', 'bool']), ('FExecDup', ['key']), ('FExecAfterStart', ['rdag', 'key', 'bool']),
        ('FExecAfterBody', ['rdag', 'key']), ('FExecAfterOk', ['rdag', 'key', 'value']), ('FExecAfterErr', ['rdag', 'exn']),
        ('FRetry', ['nat', 'bool', 'kwargs', 'nat']), ('FRetryAfterBody', ['nat', 'kwargs', 'nat']),
        ('FRetryAfterEmit', ['nat', 'kwargs', 'nat']), ('FRetryAfterSleep', ['nat', 'kwargs', 'nat']),
        ('FRecStart', ['rdag', 'key', 'value']), ('FRecLoop', ['rdag', 'key', 'key', 'rdag', 'nat', 'value']),
        ('FRecAfterIter', ['rdag', 'key', 'key', 'rdag', 'nat']), ('FRecAfterDefault', ['key', 'key'])]),
    ('tstate', [('TReady', ['list frame', 'signal']), ('TWait', ['wait', 'list frame']), ('TDone', ['signal'])], '(tstate frame)', '(@{c} frame)'),
    ('tname', [('TNMain', []), ('TNRun', []), ('TNNode', ['key']), ('TNDag', ['key', 'key']), ('TNRec', ['key'])]),
    ('task', [('Build_task', ['nat', 'tname', 'tstate', 'bool'])], '(task frame)', '(@{c} frame)'),
    ('storage', [('Build_storage', ['list (key * value)', 'list key', 'list key', 'list key', 'list (key * (value * key))', 'list (key * key)'])]),
]


def eqb_of(t):
    t = t.strip()
    if t in PRIM:
        return PRIM[t]
    if t == 'kwargs':
        return eqb_of('list (nat * value)')
    if t.startswith('list '):
        return '(list_eqb %s)' % eqb_of(strip_paren(t[5:]))
    if t.startswith('option '):
        return '(option_eqb %s)' % eqb_of(strip_paren(t[7:]))
    if '*' in t and depth0_star(t) is not None:
        i = depth0_star(t)
        return '(prod_eqb %s %s)' % (eqb_of(strip_paren(t[:i])), eqb_of(strip_paren(t[i + 1:])))
    return t + '_seqb'


def sound_of(t):
    t = t.strip()
    if t in SOUND:
        return SOUND[t]
    if t == 'kwargs':
        return sound_of('list (nat * value)')
    if t.startswith('list '):
        return '(list_eqb_sound _ %s)' % sound_of(strip_paren(t[5:]))
    if t.startswith('option '):
        return '(option_eqb_sound _ %s)' % sound_of(strip_paren(t[7:]))
    if '*' in t and depth0_star(t) is not None:
        i = depth0_star(t)
        return '(prod_eqb_sound _ _ %s %s)' % (sound_of(strip_paren(t[:i])), sound_of(strip_paren(t[i + 1:])))
    return t + '_seqb_sound'


def strip_paren(t):
    t = t.strip()
    if t.startswith('(') and t.endswith(')') and matching(t):
        return t[1:-1].strip()
    return t


def matching(t):
    d = 0
    for i, c in enumerate(t):
        if c == '(':
            d += 1
        elif c == ')':
            d -= 1
            if d == 0 and i != len(t) - 1:
                return False
    return True


def depth0_star(t):
    d = 0
    for i, c in enumerate(t):
        if c == '(':
            d += 1
        elif c == ')':
            d -= 1
        elif c == '*' and d == 0:
            return i
    return None


HEADER = '''(* GENERATED by tools/gen_eqb.py -- structural boolean equality on the model's state and its soundness.
   Only soundness (eqb x y = true -> x = y) is needed: it is what makes a membership test in the explored set mean equality. *)
From MLPE Require Import Engine.Run.

Definition sound {A} (eqb : A -> A -> bool) : Prop := forall x y, eqb x y = true -> x = y.

Lemma nat_eqb_sound : sound Nat.eqb. Proof. intros x y H. apply Nat.eqb_eq. exact H. Qed.
Lemma bool_eqb_sound : sound Bool.eqb. Proof. intros x y H. apply Bool.eqb_prop. exact H. Qed.
Lemma Z_eqb_sound : sound Z.eqb. Proof. intros x y H. apply Z.eqb_eq. exact H. Qed.

Section Comb.
  Context {A B : Type} (ea : A -> A -> bool) (eb : B -> B -> bool).
  Fixpoint list_eqb (l m : list A) : bool :=
    match l, m with
    | [], [] => true
    | x :: l', y :: m' => ea x y && list_eqb l' m'
    | _, _ => false
    end.
  Definition option_eqb (a b : option A) : bool :=
    match a, b with Some x, Some y => ea x y | None, None => true | _, _ => false end.
  Definition prod_eqb (a b : A * B) : bool := ea (fst a) (fst b) && eb (snd a) (snd b).
  Lemma list_eqb_sound : sound ea -> sound list_eqb.
  Proof.
    intros Ha l. induction l as [|x l IH]; intros [|y m]; cbn; try discriminate; [reflexivity|].
    intros H. apply andb_true_iff in H. destruct H as [H1 H2]. f_equal; [apply Ha; exact H1|apply IH; exact H2].
  Qed.
  Lemma option_eqb_sound : sound ea -> sound option_eqb.
  Proof. intros Ha [x|] [y|]; cbn; try discriminate; [|reflexivity]. intros H. f_equal. apply Ha. exact H. Qed.
  Lemma prod_eqb_sound : sound ea -> sound eb -> sound prod_eqb.
  Proof.
    intros Ha Hb [a1 b1] [a2 b2]. unfold prod_eqb. cbn. intros H. apply andb_true_iff in H. destruct H as [H1 H2].
    f_equal; [apply Ha; exact H1|apply Hb; exact H2].
  Qed.
End Comb.

Ltac split_and H :=
  repeat match type of H with
         | (_ && _)%bool = true => let H' := fresh H in apply andb_true_iff in H; destruct H as [H H']
         end.
'''

VALUE = '''
Fixpoint value_seqb (a b : value) : bool :=
  match a, b with
  | VInt x, VInt y => Z.eqb x y
  | VStr x, VStr y => Nat.eqb x y
  | VNone, VNone => true
  | VNode i l, VNode j m =>
    Nat.eqb i j && (fix go (l m : list (pname * value)) : bool :=
                      match l, m with
                      | [], [] => true
                      | (p, x) :: l', (q, y) :: m' => Nat.eqb p q && value_seqb x y && go l' m'
                      | _, _ => false
                      end) l m
  | VDef i l, VDef j m =>
    Nat.eqb i j && (fix go (l m : list (pname * value)) : bool :=
                      match l, m with
                      | [], [] => true
                      | (p, x) :: l', (q, y) :: m' => Nat.eqb p q && value_seqb x y && go l' m'
                      | _, _ => false
                      end) l m
  | VRec d, VRec e => value_seqb d e
  | VExn e, VExn f => exn_seqb e f
  | _, _ => false
  end.

Lemma value_seqb_sound : sound value_seqb.
Proof.
  unfold sound. fix IH 1. intros a b. destruct a as [x|x| |i l|i l|d|e]; destruct b as [y|y| |j m|j m|d'|e']; cbn [value_seqb]; try discriminate.
  - intros H. f_equal. apply Z.eqb_eq. exact H.
  - intros H. f_equal. apply Nat.eqb_eq. exact H.
  - reflexivity.
  - intros H. apply andb_true_iff in H. destruct H as [H1 H2]. apply Nat.eqb_eq in H1. subst j. f_equal.
    revert m H2. induction l as [|[p x] l IHl]; intros [|[q y] m]; try discriminate; [reflexivity|].
    intros H. apply andb_true_iff in H. destruct H as [H H3]. apply andb_true_iff in H. destruct H as [H1 H2].
    apply Nat.eqb_eq in H1. subst q. rewrite (IH x y H2). f_equal. apply IHl. exact H3.
  - intros H. apply andb_true_iff in H. destruct H as [H1 H2]. apply Nat.eqb_eq in H1. subst j. f_equal.
    revert m H2. induction l as [|[p x] l IHl]; intros [|[q y] m]; try discriminate; [reflexivity|].
    intros H. apply andb_true_iff in H. destruct H as [H H3]. apply andb_true_iff in H. destruct H as [H1 H2].
    apply Nat.eqb_eq in H1. subst q. rewrite (IH x y H2). f_equal. apply IHl. exact H3.
  - intros H. f_equal. apply IH. exact H.
  - intros H. f_equal. apply exn_seqb_sound. exact H.
Qed.
'''

FOOTER = '''
(* states are compared with their traces erased: both traces must be empty *)
Definition state_seqb (a b : mstate) : bool :=
  match st_trace a, st_trace b with
  | [], [] =>
    list_eqb Nat.eqb (st_ready a) (st_ready b) && Nat.eqb (st_next a) (st_next b)
    && list_eqb (prod_eqb ctr_seqb Nat.eqb) (st_ctrs a) (st_ctrs b)
    && list_eqb task_seqb (st_tasks a) (st_tasks b)
    && list_eqb (prod_eqb wait_seqb Nat.eqb) (st_waiters a) (st_waiters b)
    && list_eqb key_seqb (st_events a) (st_events b)
    && list_eqb (prod_eqb key_seqb value_seqb) (st_adddata a) (st_adddata b)
    && storage_seqb (st_store a) (st_store b)
  | _, _ => false
  end.

Lemma state_seqb_sound : sound state_seqb.
Proof.
  intros [s1 a1 t1 r1 w1 e1 tr1 c1 n1] [s2 a2 t2 r2 w2 e2 tr2 c2 n2]. unfold state_seqb. cbn.
  destruct tr1; [|discriminate]. destruct tr2; [|discriminate]. intros H. split_and H.
  apply (list_eqb_sound _ nat_eqb_sound) in H. apply nat_eqb_sound in H6.
  apply (list_eqb_sound _ (prod_eqb_sound _ _ ctr_seqb_sound nat_eqb_sound)) in H5.
  apply (list_eqb_sound _ task_seqb_sound) in H4.
  apply (list_eqb_sound _ (prod_eqb_sound _ _ wait_seqb_sound nat_eqb_sound)) in H3.
  apply (list_eqb_sound _ key_seqb_sound) in H2.
  apply (list_eqb_sound _ (prod_eqb_sound _ _ key_seqb_sound value_seqb_sound)) in H1.
  apply storage_seqb_sound in H0. subst. reflexivity.
Qed.
'''


def gen_inductive(item):
    name, ctors = item[0], item[1]
    tyname = item[2] if len(item) > 2 else name
    cpat = item[3] if len(item) > 3 else '{c}'
    out = []
    out.append('Definition %s_seqb (a b : %s) : bool :=' % (name, tyname))
    out.append('  match a, b with')
    for c, args in ctors:
        xs = ['x%d' % i for i in range(len(args))]
        ys = ['y%d' % i for i in range(len(args))]
        body = ' && '.join('%s %s %s' % (eqb_of(t), x, y) for t, x, y in zip(args, xs, ys)) or 'true'
        out.append('  | %s, %s => %s' % (' '.join([c] + xs), ' '.join([c] + ys), body))
    if len(ctors) > 1:
        out.append('  | _, _ => false')
    out.append('  end.')
    out.append('')
    out.append('Lemma %s_seqb_sound : sound %s_seqb.' % (name, name))
    out.append('Proof.')
    out.append('  intros a b. destruct a; destruct b; cbn [%s_seqb]; try discriminate; try reflexivity; intros H; split_and H;' % name)
    types = sorted({t for _, args in ctors for t in args})
    hints = ' '.join('try (match goal with Hx : %s _ _ = true |- _ => apply %s in Hx end);' % (eqb_of(t).strip('()') if not eqb_of(t).startswith('(') else '_', sound_of(t)) for t in types)
    # robust generic finishing: turn every boolean hypothesis into an equation using the candidate soundness lemmas
    lem = ' | '.join('apply %s in Hx' % sound_of(t) for t in types) or 'fail'
    out.append('    repeat (match goal with Hx : _ = true |- _ => first [ %s ] end); subst; reflexivity.' % lem)
    out.append('Qed.')
    out.append('')
    return '\n'.join(out)


def main():
    out = [HEADER]
    for item in INDUCTIVES:
        if item == 'VALUE':
            out.append(VALUE)
        else:
            out.append(gen_inductive(item))
    out.append(FOOTER)
    open(sys.argv[1], 'w').write('\n'.join(out))


main()
