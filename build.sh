#!/bin/bash
# Full offline build: Coq development (.vo, never -vos/-vok), extraction, OCaml driver.
# usage: build.sh [clean]
set -e
cd "$(dirname "$0")/coq"
# one build at a time: concurrent ./check runs share this directory (the second one finds everything up to date)
exec 9>.build.lock
flock 9
export PATH=/usr/bin:$PATH
if [ "$1" = "clean" ]; then
  [ -f Makefile ] && make clean >/dev/null 2>&1 || true
  rm -f Makefile Makefile.conf .Makefile.d Extract/model_driver
  rm -rf Extract/ml
  find . -name "*.vo" -o -name "*.vok" -o -name "*.vos" -o -name "*.glob" -o -name ".*.aux" | xargs -r rm -f
fi
# regenerate constant tables from /repo (fail-closed translator)
python3 ../harness/translate_tables.py "${VERIF_REPO:-/repo}" gen/Tables.v
coq_makefile -f _CoqProject -o Makefile >/dev/null
set +e
timeout 3000 make -j"${VERIF_JOBS:-12}" > /tmp/verif_make_$$.log 2>&1
mrc=$?
set -e
grep -v "^COQDEP\|^COQC\|^make" /tmp/verif_make_$$.log || true
rm -f /tmp/verif_make_$$.log
[ $mrc = 0 ] || { echo "BUILD-FAILED make (exit $mrc)"; exit 2; }
# every .v of the project must have produced a .vo
missing=0
for f in $(grep '\.v$' _CoqProject); do [ -f "${f}o" ] || { echo "BUILD-FAILED $f"; missing=1; }; done
[ $missing = 0 ] || exit 2
# extraction (into its own directory) + driver
mkdir -p Extract/ml
if [ ! -f Extract/model_driver ] || [ Extract/Driver.vo -nt Extract/model_driver ] || [ Extract/main.ml -nt Extract/model_driver ]; then
  ( cd Extract/ml && rm -f *.ml *.mli *.cm* *.o && timeout 300 coqc -Q ../.. MLPE ../Extract.v -o ../Extract.vo >/dev/null 2>&1 \
    && cp ../main.ml . \
    && files=$(ocamlfind ocamldep -sort *.mli *.ml) \
    && ocamlfind ocamlopt -w -a $files -o ../model_driver )
fi
[ -x Extract/model_driver ] || { echo "BUILD-FAILED driver"; exit 2; }
echo "BUILD-OK"
